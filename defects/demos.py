"""Native demonstrations of the defects listed in DESIGN.md section 6.

Run with:  PYTHONPATH=<tree>/src /venv/bin/python /verif/defects/demos.py
Prints one line per defect: "D<n> <property> REPRODUCED|absent : <observation>".
Exit status 0 always (this is a demonstration, not a check).
"""
from __future__ import annotations

import sys
import threading
import uuid


class Budget(Exception):
    pass


def run_budget(fn, steps=200000):
    """Run fn() with a line-event budget; returns ('ok', value) | ('exc', type name, str) | ('budget',)."""
    count = [0]

    def tracer(frame, event, arg):
        if event == "line":
            count[0] += 1
            if count[0] > steps:
                raise Budget()
        return tracer

    sys.settrace(tracer)
    try:
        try:
            v = fn()
        finally:
            sys.settrace(None)
        return ("ok", v)
    except Budget:
        return ("budget",)
    except BaseException as e:  # noqa
        return ("exc", type(e).__name__, str(e)[:80])


def show(n, prop, bad, obs):
    print(f"D{n:02d} {prop} {'REPRODUCED' if bad else 'absent'} : {obs}")


def main():
    import dpapi_ng._asn1 as asn1
    import dpapi_ng._security_descriptor as sd
    import dpapi_ng._client as client
    import dpapi_ng._gkdi as gkdi
    import dpapi_ng._epm as epm
    from dpapi_ng._rpc import _verification as vt
    from dpapi_ng._rpc import _client as rpcc
    from dpapi_ng._rpc import _pdu as pdu
    from dpapi_ng._rpc import _request as req
    from cryptography.hazmat.primitives import hashes

    # D1 C07: negative INTEGER with trailing zero octets
    r = run_budget(lambda: asn1.ASN1Reader(asn1._pack_asn1_integer(-65536)).read_integer())
    show(1, "C07", r != ("ok", -65536), r)

    # D2 C05: empty INTEGER content
    r = run_budget(lambda: asn1.ASN1Reader(b"\x02\x00").read_integer())
    show(2, "C05", r[0] == "exc" and r[1] not in ("ValueError", "NotEnougData"), r)

    # D3 C05: empty OID content
    r = run_budget(lambda: asn1.ASN1Reader(b"\x06\x00").read_object_identifier())
    show(3, "C05", r[0] == "exc" and r[1] not in ("ValueError", "NotEnougData"), r)

    # D4 C08: SID grammar / ranges
    obs = []
    bad = False
    for s in ["S-1-5-18\n", "S-1-5-١٨", "S-1-5-4294967296", "S-1-281474976710656-1", "S-1-18446744073709551616-1"]:
        r = run_budget(lambda: sd.sid_to_bytes(s))
        ok = r[0] == "exc" and r[1] == "ValueError"
        bad |= not ok
        obs.append((s, r[0], r[1] if r[0] == "exc" else r[1].hex()))
    show(4, "C08", bad, obs)

    # D5 C09: L0 one tick before an L0 boundary
    base = 360000000000
    t = 316 * 1024 * base - 1
    real = client.time.time_ns
    seen = {}

    class FakeCache:
        def _get_key(self, target_sd, rkid, l0, l1, l2):
            seen["pos"] = (l0, l1, l2)
            return None

    client.time.time_ns = lambda: (t - client._EPOCH_FILETIME) * 100
    try:
        client._get_protection_gke_from_cache(uuid.UUID(int=1), b"sd", FakeCache())
    finally:
        client.time.time_ns = real
    want = (t // (1024 * base), (t // (32 * base)) % 32, (t // base) % 32)
    show(5, "C09", seen["pos"] != want, f"t={t} got={seen['pos']} want={want}")

    # D6 C10: stale non-covering seed returned after load_key
    cache = client.KeyCache()
    rk = uuid.UUID(int=7)
    tsd = b"target-sd"
    cache2 = client.KeyCache()
    cache2.load_key(b"\x11" * 64, rk)
    full = cache2._get_key(tsd, rk, 100, 31, 31)
    l2k = gkdi.compute_l2_key(hashes.SHA512(), 3, 5, full)
    l1k_prev = None
    # build the envelope a server would return for (3,5): l1_key = L1K(2), l2_key = L2K(3,5)
    import dataclasses

    def l1_key_for(i):
        k = full.l1_key
        for j in range(30, i - 1, -1):
            k = gkdi.kdf(hashes.SHA512(), k, gkdi.KDS_SERVICE_LABEL, gkdi.compute_kdf_context(rk, 100, j, -1), 64)
        return k

    seed = dataclasses.replace(full, l1=3, l2=5, l1_key=l1_key_for(2), l2_key=l2k)
    cache._store_key(tsd, seed)
    cache.load_key(b"\x11" * 64, rk)
    got = cache._get_key(tsd, rk, 100, 10, 10)
    bad = got is not None and not (got.l1 > 10 or (got.l1 == 10 and got.l2 >= 10))
    show(6, "C10", bad, f"_get_key(...,10,10) returned envelope at ({got.l1},{got.l2})" if got else "None")

    # D7 C02: request above the seed position
    r = run_budget(lambda: gkdi.compute_l2_key(hashes.SHA256(), 40, 0, full), steps=50000)
    show(7, "C02", not (r[0] == "exc" and r[1] == "ValueError"), r[:2])

    # D8 C05: L0 >= 2**31 in a key identifier
    r = run_budget(lambda: cache2._get_key(tsd, rk, 2**31, 0, 0))
    show(8, "C05", r[0] == "exc" and r[1] not in ("ValueError",), r[:2])

    # D9 C12: EptMapResult round trip with tower lengths not multiple of 8 minus 4
    bad = False
    obs = []
    for n in (1, 2, 7, 8):
        towers = [[epm.Floor(epm.FloorProtocol.OSI, b"a" * n, b"")], [epm.TCPFloor(135)]]
        m = epm.EptMapResult(None, towers, 0)
        r = run_budget(lambda: epm.EptMapResult.unpack(m.pack()))
        def sem(x):
            # semantic fields: known floors mirror their raw lhs/rhs after unpack, by design
            return [[(type(f).__name__, {k: v for k, v in vars(f).items() if not (type(f) is not epm.Floor and k in ("lhs", "rhs"))}) for f in t] for t in x.towers]

        ok = r[0] == "ok" and r[1].pack() == m.pack() and sem(r[1]) == sem(m) and r[1].status == m.status
        bad |= not ok
        obs.append((n, "ok" if ok else (r[0], r[1] if r[0] == "exc" else "different value")))
    show(9, "C12", bad, obs)

    # D10 C12: VerificationTrailer without END
    data = vt.VerificationTrailer.signature if isinstance(vt.VerificationTrailer.signature, bytes) else b"\x8a\xe3\x13\x71\x02\xf4\x36\x71"
    r = run_budget(lambda: vt.VerificationTrailer.unpack(data), steps=50000)
    show(10, "C12", r[0] == "budget" or (r[0] == "exc" and r[1] != "ValueError"), r[:2])

    # D11 C18: absurd tower count
    data = b"\x00" * 40 + (2**40).to_bytes(8, "little") + b"\x00" * 4
    r = run_budget(lambda: epm.EptMapResult.unpack(data), steps=50000)
    show(11, "C18", r[0] == "budget", r[:2])

    # D12 C14: segmentation / EOF in the sync client
    class Sock:
        def __init__(self, chunks):
            self.chunks = list(chunks)

        def sendall(self, b):
            pass

        def _next(self, n):
            if not self.chunks:
                return b""
            c = self.chunks[0]
            out, rest = c[:n], c[n:]
            if rest:
                self.chunks[0] = rest
            else:
                self.chunks.pop(0)
            return out

        def recv(self, n):
            return self._next(n)

        def recv_into(self, view):
            d = self._next(len(view))
            view[: len(d)] = d
            return len(d)

    hdr = pdu.PDUHeader(5, 0, pdu.PacketType.RESPONSE, pdu.PacketFlags.PFC_FIRST_FRAG | pdu.PacketFlags.PFC_LAST_FRAG, pdu.DataRep(), 0, 0, 1)
    resp = bytearray(req.Response(hdr, None, 4, 0, 0, b"abcd").pack())
    resp[8:10] = len(resp).to_bytes(2, "little")
    resp = bytes(resp)
    request = req.Request(hdr, None, 0, 0, 0, None, b"")
    obs = []
    bad = False
    for name, chunks in [("split-in-header", [resp[:5], resp[5:]]), ("eof-in-body", [resp[:20]]), ("eof-at-0", [])]:
        c = rpcc.SyncRpcClient(Sock(chunks))
        r = run_budget(lambda: c._send_pdu(request, req.Response), steps=50000)
        if name == "split-in-header":
            ok = r[0] == "ok" and r[1].stub_data == b"abcd"
        else:
            ok = r[0] == "exc" and r[1] not in ("IndexError",)
        bad |= not ok
        obs.append((name, r[0], r[1] if r[0] == "exc" else ""))
    show(12, "C14", bad, obs)

    # D13 C16: unsealed reply accepted on an authenticated connection
    class Auth:
        calls = 0

        def unwrap(self, *a):
            Auth.calls += 1
            return b""

    c = rpcc.RpcClient(Auth())
    r = run_budget(lambda: c._process_response(bytearray(resp), pdu.PDUHeader.unpack(resp), req.Response, (24, 40)))
    show(13, "C16", r[0] == "ok" and Auth.calls == 0, (r[0], "unwrap calls", Auth.calls))

    # D14 C12/C18: unknown floor protocol loses its value on re-encoding
    d = b"\x02\x00\xff\x00\x01\x00\x00"
    r = run_budget(lambda: epm.Floor.unpack(d).pack())
    show(14, "C12", r != ("ok", d), r)


if __name__ == "__main__":
    main()
