# property -> (level text, level note (assumptions / trusted base), DESIGN section)
CLAIMED = {
    "C02": (
        "Deductive proof, unbounded in every input: compute_kdf_context, kdf, compute_l1_key and compute_l2_key are verified against the MS-GKDI derivation chain (spec functions L1K/L2K over an uninterpreted SP800-108 KDF) for symbolic envelope position, requested position, hash, root key id, L0 and keys; loop invariants + variants give termination and the <=63 KDF-call bound; non-covering requests are proved to raise ValueError.",
        "A-KDF: cryptography's KBKDFHMAC(counter mode, rlen=4, llen=4, BeforeFixed).derive is the function KDF(alg,key,label,context,L) (its argument contract is checked at the call site); A-PY (Python semantics model of pyvc). KeyCache._get_key's use of the chain is covered under C10.",
        "DESIGN 5 C02",
    ),
    "C09": (
        "Deductive proof for every clock value t >= 0: _get_protection_gke_from_cache requests from the cache, and names in the envelope it returns, exactly (floor(t/1024B), floor(t/32B) mod 32, floor(t/B) mod 32) in integer arithmetic (div/mod purified to linear integer arithmetic); the call-site precondition of compute_l2_key is discharged from the KeyCache._get_key summary.",
        "A-CLOCK: time.time_ns() returns a non-negative integer. KeyCache._get_key is used through its (assumed here, verified under C10) summary contract. new_kek copying l0/l1/l2 into the key identifier is covered under C03/C06.",
        "DESIGN 5 C09",
    ),
}
NOT_CLAIMED = {}
