# property -> (level text, level note (assumptions / trusted base), DESIGN section)
CLAIMED = {
    "C02": (
        "Deductive proof, unbounded in every input: compute_kdf_context, kdf, compute_l1_key and compute_l2_key are verified against the MS-GKDI derivation chain (spec functions L1K/L2K over an uninterpreted SP800-108 KDF) for symbolic envelope position, requested position, hash, root key id, L0 and keys; loop invariants + variants give termination and the <=63 KDF-call bound; non-covering requests are proved to raise ValueError.",
        "A-KDF: cryptography's KBKDFHMAC(counter mode, rlen=4, llen=4, BeforeFixed).derive is the function KDF(alg,key,label,context,L) (its argument contract is checked at the call site); A-PY (Python semantics model of pyvc). KeyCache._get_key's use of the chain is covered under C10.",
        "DESIGN 5 C02",
    ),
    "C09": (
        "Deductive proof for every clock value t >= 0: _get_protection_gke_from_cache requests from the cache, and names in the envelope it returns, exactly (floor(t/1024B), floor(t/32B) mod 32, floor(t/B) mod 32) in integer arithmetic (div/mod purified to linear integer arithmetic); the call-site precondition of compute_l2_key is discharged from the KeyCache._get_key summary.",
        "A-CLOCK: time.time_ns() returns a non-negative integer. KeyCache._get_key is used through its (assumed here, verified under C10) summary contract. new_kek copying l0/l1/l2 into the key identifier is covered under C03/C06.",
        "DESIGN 5 C09",
    ),
    "C11": (
        "Deductive proof, unbounded in every field value and byte length: pack of KDFParameters, FFCDHParameters, FFCDHKey, ECDHKey, GroupKeyEnvelope, KeyIdentifier and the GetKey request stub is proved equal to a spec rope written from MS-GKDI 2.2.1-2.2.4 / 3.1.4.1 (NDR64: 8-byte maximum count, -len mod 8 padding, unique pointer or null, signed 32-bit key ids; fixed-width big-endian integers of symbolic width keep leading zeros, values that do not fit raise); every unpack is proved to return the encoded value when given that rope; unpack_response is proved to hand exactly the envelope bytes to the envelope decoder for every envelope length and to raise on a non-zero HRESULT.",
        "A-PY (incl. len(x) <= 2**63-1); UTF-16/UTF-8 codecs as uninterpreted ENC/DEC with the inverse law; 256**n for symbolic n as an uninterpreted POW256 (only its positivity is used). WF preconditions: 32-bit fields and lengths in range.",
        "DESIGN 5 C11",
    ),
    "C20": (
        "Deductive proof for answers of arbitrary length n >= 1 and arbitrary record fields: _get_highest_answer returns the conversion (trailing dots stripped, port/weight/priority unchanged) of some record that is minimal for (priority, -weight) among all records (loop invariant over the converted list; sorted() by its pairwise-ordered-permutation contract); lookup_dc and async_lookup_dc are proved to issue exactly one resolve('_ldap._tcp.dc._msdcs.<domain>' or the bare prefix, 'SRV', search=True) and to return that selection - both flavours against the same spec.",
        "A-NET: dns.resolver.resolve / dns.asyncresolver.resolve return a non-empty answer or raise DNSException; assumed builtin contract of sorted() (result is the input composed with a permutation and pairwise non-decreasing in the key); str.rstrip as an uninterpreted function.",
        "DESIGN 5 C20",
    ),
    "C12": (
        "Deductive proof per codec: pack of every PDU type the client uses (bind, bind_ack, bind_nak, alter_context, alter_context_resp, request with/without object UUID, response, fault), of the security trailer, verification-trailer commands, tower floors and ept_map request/reply is proved equal to a spec rope written from C706 / MS-RPCE (NDR64 alignment rules as linear facts over symbolic lengths), and PDU.unpack / unpack of those bytes is proved to return the encoded message (all scalars and byte lengths symbolic). Decoders on ARBITRARY bytes: VerificationTrailer.unpack, EptMapResult.unpack and PDU.unpack (client-side types) are proved to terminate with steps <= 2*len+c and bytes copied <= 2*len+c by loop invariants over a potential (steps + remaining bytes).",
        "B (bounded in list length only, stated in contracts/c_rpc.py and c_epm.py): round trips are case-split over contexts <= 2 x syntaxes <= 2, results <= 3, versions <= 3, commands <= 3, request floors <= 2 (3 thorough), reply towers <= 2 x floors <= 1 (2 thorough); the work bound for bind/alter_context decoding (server-side PDUs) is not proved. Equality of known floors/commands is over class + declared fields + re-encoded bytes (they mirror raw lhs/rhs/value after decoding, by design). A-PY; UTF-8 codec uninterpreted with inverse law.",
        "DESIGN 5 C12",
    ),
    "C18": (
        "Deductive proof: for an arbitrary reply (any length, tower counts up to 2**64-1) EptMapResult.unpack does at most 2*len+16 steps and copies at most len+64 bytes (potential invariants on both loops; the tower count is proved bounded by len/8 after the guard); for well-formed replies all towers are decoded (NDR64 alignment for every tower length, known and unknown floor protocols) and _process_ept_map_result returns the TCP port of the first tower with a TCP floor, raising ValueError for a non-zero status or no TCP floor.",
        "B in list length for the functional part only: towers <= 2 x floors <= 1 (quick) or 2 (thorough) with every payload length symbolic (so every tower-length residue mod 8 is covered). A-PY.",
        "DESIGN 5 C18",
    ),
    "C13": (
        "Deductive proof for every stub length, verification trailer (any bytes) present or absent, any signature size and header signing on/off: _create_request returns exactly the specified request (VT at the next multiple of 4, zero padding to a multiple of 16 when authenticated, pad_length = padding added, auth_len = signature size, encrypt offsets (24, 24+len)); _prepare_pdu patches frag_len to the PDU size and hands exactly header[0:24] | stub+padding | 8 trailer bytes to AuthenticationProvider.wrap with the client's header-signing flag; wrap/unwrap pass [(sign_only|data_readonly, header), body, (same, trailer), header buffer] to the security context and return header ++ sealed ++ trailer ++ signature; _process_get_key_result hands the decoder the stub minus exactly the declared pad_length and never rejects a reply itself.",
        "A-SPNEGO: wrap_iov/unwrap_iov seal the data buffer in place (same length), sign sign_only buffers, signature size = query_message_sizes().header (constant per context). Requests larger than one 64 KiB fragment are outside the contract (the client has no fragmentation). A-PY.",
        "DESIGN 5 C13",
    ),
    "C16": (
        "Deductive proof for an ARBITRARY received fragment: when the request was sealed, _process_response returns a Response only after exactly one unwrap(header=R[:24], body=R[24:s], trailer=R[s:s+8], signature=R[s+8:], sign_header=client flag) with s = frag_len-auth_len-8 and auth_len > 0, and the returned stub is the unwrap output (or empty when the declared lengths are inconsistent) - never bytes that bypassed the security context; a reply without security trailer raises ValueError; BindNak/Fault/other types raise. unwrap itself is proved to give the security context the signature and the three buffers with the right buffer types; request level is the constant PKT_PRIVACY in the trailer built by get_empty_trailer.",
        "A-SPNEGO / A-IDEAL: a successful unwrap_iov means the peer holding the session key sealed exactly these buffers (cryptographic unforgeability and replay protection are inside the security context and are assumed, not proved). PDU.unpack is used through its summary contract, verified under C12.",
        "DESIGN 5 C16",
    ),
    "C14": (
        "Deductive proof against a nondeterministic peer contract: recv_into(view) may deliver ANY 1..min(len(view), remaining) bytes of the ghost stream and 0 only at EOF; readexactly(n) delivers n bytes or raises. SyncRpcClient._recv_into is proved (loop invariant + variant) to fill its view with exactly the next len(view) stream bytes for every chunking and to raise ConnectionError when the stream ends first; both _send_pdu flavours are proved to send the prepared PDU once, then hand _process_response exactly STREAM[:frag_len] (frag_len = LE16(STREAM[8:10])) with the header decoded from STREAM[:16], and to raise ConnectionError / IncompleteReadError when the stream is shorter than 16 or than frag_len bytes. The chunk sizes are the callee contract's nondeterminism, so the VC quantifies over every segmentation and EOF point.",
        "A-NET: socket.recv_into / StreamReader.readexactly behave as stated; a peer that neither sends nor closes is outside the property. _prepare_pdu and _process_response are used through their contracts (C13, C16).",
        "DESIGN 5 C14",
    ),
    "C15": (
        "Deductive proof of SyncRpcClient.bind and AsyncRpcClient.bind against typestate (ghost monitor) contracts, for an arbitrary server and provider: the provider's first step gets no token and later steps get exactly the token of the latest reply (b'' when it has none), only while the context reports not complete, and only after the previous non-empty output was sent; every PDU carries the token just produced, with auth_len = its size, level PKT_PRIVACY, a Bind first and AlterContext afterwards, the header-sign flag as negotiated so far; on return all produced tokens were sent, the first ack is returned, and _sign_header holds iff every reply advertised PFC_SUPPORT_HEADER_SIGN. The leg loop is handled by an inductive invariant over the monitor (any number of legs). _process_bind_result is proved to return only if the desired context id was ACCEPTED (else ValueError); BindNak/Fault/unexpected types are errors by the _process_response contract (C16).",
        "Partial correctness for the leg loop (its termination depends on the external provider). B: presentation context lists of length 1..2 and result lists 0..3 in _process_bind_result. A-SPNEGO (step/complete are arbitrary); _send_pdu is used through a monitor contract, its own behaviour is C14/C16. A-PY; run_in_executor(func, *args) awaits func(*args).",
        "DESIGN 5 C15",
    ),
}
NOT_CLAIMED = {}
