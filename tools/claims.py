# property -> (level text, level note (assumptions / trusted base), DESIGN section)
CLAIMED = {
    "C02": (
        "Deductive proof, unbounded in every input: compute_kdf_context, kdf, compute_l1_key and compute_l2_key are verified against the MS-GKDI derivation chain (spec functions L1K/L2K over an uninterpreted SP800-108 KDF) for symbolic envelope position, requested position, hash, root key id, L0 and keys; loop invariants + variants give termination and the <=63 KDF-call bound; non-covering requests are proved to raise ValueError.",
        "A-KDF: cryptography's KBKDFHMAC(counter mode, rlen=4, llen=4, BeforeFixed).derive is the function KDF(alg,key,label,context,L) (its argument contract is checked at the call site); A-PY (Python semantics model of pyvc). KeyCache._get_key's use of the chain is covered under C10.",
        "DESIGN 5 C02",
    ),
    "C09": (
        "Deductive proof for every clock value t >= 0: _get_protection_gke_from_cache requests from the cache, and names in the envelope it returns, exactly (floor(t/1024B), floor(t/32B) mod 32, floor(t/B) mod 32) in integer arithmetic (div/mod purified to linear integer arithmetic); the call-site precondition of compute_l2_key is discharged from the KeyCache._get_key summary.",
        "A-CLOCK: time.time_ns() returns a non-negative integer. KeyCache._get_key is used through its (assumed here, verified under C10) summary contract. new_kek copying l0/l1/l2 into the key identifier is covered under C03/C06.",
        "DESIGN 5 C09",
    ),
    "C11": (
        "Deductive proof, unbounded in every field value and byte length: pack of KDFParameters, FFCDHParameters, FFCDHKey, ECDHKey, GroupKeyEnvelope, KeyIdentifier and the GetKey request stub is proved equal to a spec rope written from MS-GKDI 2.2.1-2.2.4 / 3.1.4.1 (NDR64: 8-byte maximum count, -len mod 8 padding, unique pointer or null, signed 32-bit key ids; fixed-width big-endian integers of symbolic width keep leading zeros, values that do not fit raise); every unpack is proved to return the encoded value when given that rope; unpack_response is proved to hand exactly the envelope bytes to the envelope decoder for every envelope length and to raise on a non-zero HRESULT.",
        "A-PY (incl. len(x) <= 2**63-1); UTF-16/UTF-8 codecs as uninterpreted ENC/DEC with the inverse law; 256**n for symbolic n as an uninterpreted POW256 (only its positivity is used). WF preconditions: 32-bit fields and lengths in range.",
        "DESIGN 5 C11",
    ),
    "C20": (
        "Deductive proof for answers of arbitrary length n >= 1 and arbitrary record fields: _get_highest_answer returns the conversion (trailing dots stripped, port/weight/priority unchanged) of some record that is minimal for (priority, -weight) among all records (loop invariant over the converted list; sorted() by its pairwise-ordered-permutation contract); lookup_dc and async_lookup_dc are proved to issue exactly one resolve('_ldap._tcp.dc._msdcs.<domain>' or the bare prefix, 'SRV', search=True) and to return that selection - both flavours against the same spec.",
        "A-NET: dns.resolver.resolve / dns.asyncresolver.resolve return a non-empty answer or raise DNSException; assumed builtin contract of sorted() (result is the input composed with a permutation and pairwise non-decreasing in the key); str.rstrip as an uninterpreted function.",
        "DESIGN 5 C20",
    ),
}
NOT_CLAIMED = {}
