#!/bin/bash
# tools/run_seeded.sh [ID ...]: applies each seeded change to a scratch worktree of /repo (HEAD), runs the check of its
# property against that worktree (--repo), reverts. Prints one line per change:
#   "<seed> <property> exit=<n> violations=<n> replay-confirmed=<n> :: <first VIOLATION line or ->"
# The worktree lives in /tmp/wt/seed-$$ and is removed at the end; /repo itself is never touched.
cd /verif
# SEEDED_DIR=seeded/benign runs the behaviour-preserving changes of round 3 instead (expected: exit 0, no VIOLATION).
dir=${SEEDED_DIR:-seeded}
sel="$@"; [ -z "$sel" ] && sel=$(ls $dir | grep -E '^C[0-9]+-(b)?[0-9]+$')
wt=/tmp/wt/seed-$$
mkdir -p /tmp/wt
git -C /repo worktree add -q --detach $wt HEAD || exit 2
trap 'git -C /repo worktree remove --force '$wt' 2>/dev/null; git -C /repo worktree prune' EXIT
for s in $sel; do
  for d in $dir/$s*; do
    [ -f "$d/patch.diff" ] || continue
    name=$(basename $d); prop=${name%%-*}
    git -C $wt apply "$PWD/$d/patch.diff" || { echo "$name: patch does not apply"; continue; }
    out=$(./check $prop --no-evidence --repo $wt 2>&1); code=$?
    git -C $wt checkout -q -- .
    viol=$(echo "$out" | grep -m1 -E '^(VIOLATION|CHECK-ERROR)' | sed -E 's#replay=/verif/replays/##' | cut -c1-220)
    n=$(echo "$out" | grep -c '^VIOLATION')
    conf=$(echo "$out" | grep '^VIOLATION' | grep -vc 'no-failing-input-found')
    echo "$name $prop exit=$code violations=$n replay-confirmed=$conf :: ${viol:--}"
    if [ -n "$SHOW_DETAIL" ]; then
      echo "$out" | grep '^VIOLATION' | sed -E 's/.*replay=([^ ]+).*/\1/' | while read f; do python3 -c "
import json,sys
d=json.load(open(sys.argv[1])); print('     ', d['obligation'].split('/')[-1], '|', str(d.get('detail'))[:230], '| confirmed=', d.get('confirmed_on_real_code'))" "$f"; done
    fi
  done
done
