#!/bin/bash
# tools/run_seeded.sh [ID ...]: applies each seeded change to /repo, runs the check of its property, reverts.
# Prints one line per change: "<seed> <property> exit=<n> <first VIOLATION line or ->"
cd /verif
sel="$@"; [ -z "$sel" ] && sel=$(ls seeded | grep -E '^C[0-9]+-[0-9]+$')
for s in $sel; do
  for d in seeded/$s*; do
    [ -f "$d/patch.diff" ] || continue
    name=$(basename $d); prop=${name%%-*}
    if ! git -C /repo diff --quiet; then echo "/repo is dirty, refusing"; exit 2; fi
    git -C /repo apply "$PWD/$d/patch.diff" || { echo "$name: patch does not apply"; continue; }
    out=$(./check $prop --no-evidence 2>&1); code=$?
    git -C /repo checkout -- .
    viol=$(echo "$out" | grep -m1 -E '^(VIOLATION|CHECK-ERROR)' | sed -E 's#replay=/verif/replays/##' | cut -c1-220)
    n=$(echo "$out" | grep -c '^VIOLATION')
    conf=$(echo "$out" | grep '^VIOLATION' | grep -vc 'no-failing-input-found')
    echo "$name $prop exit=$code violations=$n replay-confirmed=$conf :: ${viol:--}"
  done
done
