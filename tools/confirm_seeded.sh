#!/bin/bash
# Confirms seeded changes produced by sub-agents: for /tmp/wt/<ID>/out/<k>/ checks, in that scratch worktree,
#   clean tree: demo exits 0;  patched tree: all tests pass and demo exits non-zero.
# Confirmed ones are copied to /verif/seeded/<ID>-<k>/ with a meta.json recording what was run.
set -u
for d in /tmp/wt/C??/out/*/; do
  id=$(echo "$d" | sed -E 's#/tmp/wt/(C[0-9]+)/out/([0-9]+)/#\1#'); k=$(basename "$d")
  wt=/tmp/wt/$id
  [ -f "$d/patch.diff" ] || continue
  dest=/verif/seeded/$id-$k
  [ -d "$dest" ] && continue
  git -C "$wt" checkout -q -- . 2>/dev/null
  export PYTHONDONTWRITEBYTECODE=1 PYTHONPATH=$wt/src
  ( cd "$wt" && timeout 120 /venv/bin/python "$d/demo.py" >/dev/null 2>&1 ); clean=$?
  if ! git -C "$wt" apply --check "$d/patch.diff" 2>/dev/null; then echo "$id-$k: patch does not apply"; continue; fi
  git -C "$wt" apply "$d/patch.diff"
  tests=$(cd "$wt" && timeout 300 /venv/bin/python -m pytest -q -p no:cacheprovider 2>&1 | tail -1)
  ( cd "$wt" && timeout 120 /venv/bin/python "$d/demo.py" >/dev/null 2>&1 ); patched=$?
  git -C "$wt" checkout -q -- .
  ok=no
  if [ "$clean" = 0 ] && [ "$patched" != 0 ] && echo "$tests" | grep -q "276 passed"; then ok=yes; fi
  echo "$id-$k: clean_demo=$clean patched_demo=$patched tests='$tests' confirmed=$ok"
  if [ $ok = yes ]; then
    mkdir -p "$dest"; cp "$d/patch.diff" "$d/demo.py" "$dest/"
    python3 - "$d/meta.json" "$dest/meta.json" "$id" "$clean" "$patched" "$tests" <<'PY'
import json,sys
src,dst,pid,clean,patched,tests=sys.argv[1:]
try: m=json.load(open(src))
except Exception: m={}
m["property"]=pid
m["confirmed"]={"base_commit":"1464b3a (repo HEAD after the 13 fix: commits)","clean_tree_demo_exit":int(clean),"patched_tree_demo_exit":int(patched),"patched_tree_tests":tests,
 "ran":"git apply patch.diff in a scratch worktree; PYTHONPATH=<wt>/src /venv/bin/python -m pytest -q -p no:cacheprovider; PYTHONPATH=<wt>/src /venv/bin/python demo.py; git checkout -- ."}
json.dump(m,open(dst,"w"),indent=1)
PY
  fi
done
