#!/bin/bash
# runs every claimed check once (no evidence) and prints the summary lines; non-zero exit if any is not 0
cd /verif; rc=0
for p in $(python3 -c "import json;print(' '.join(c['property_id'] for c in json.load(open('MANIFEST.json'))['checks']))") "$@"; do
  out=$(./check $p --no-evidence 2>&1); code=$?; echo "$out" | tail -1; [ $code -ne 0 ] && { rc=1; echo "$out" | grep -E '^(VIOLATION|CHECK-ERROR)' | head -5; }
done; exit $rc
