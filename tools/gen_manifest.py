#!/usr/bin/env python3
"""Regenerates /verif/MANIFEST.json from the table below (run from /verif)."""
import json, os

HERE = os.path.dirname(os.path.dirname(os.path.abspath(__file__)))
props = [json.loads(l) for l in open(os.path.join(HERE, "properties.jsonl"))]

TECH = "contract-based deductive verification: VCs generated from the working tree's AST + sidecar contracts, discharged by z3"

# property -> (level text, level note, design ref)
CLAIMED = {}
exec(open(os.path.join(HERE, "tools", "claims.py")).read())

checks = []
na = []
for p in props:
    pid = p["id"]
    if pid in CLAIMED:
        text, note, ref = CLAIMED[pid]
        checks.append({
            "property_id": pid,
            "quick_cmd": f"./check {pid} --tier quick",
            "thorough_cmd": f"./check {pid} --tier thorough",
            "evidence_file": f"/verif/evidence/{pid}.json",
            "replay_cmd_template": f"./check {pid} --replay {{path}}",
            "engine": "pyvc",
            "level_claimed": {"category": "proof", "text": text, "design_ref": ref},
            "level_note": note,
            "technique": TECH,
        })
    else:
        na.append({"property_id": pid, "reason": NOT_CLAIMED.get(pid, "check not built yet (work in progress, not a limit of the technique)")})

m = {
    "version": 1,
    "setup_cmd": "./tools/setup.sh",
    "hooks": {
        "guard": "DPAPI_NG_VERIF",
        "enable": "no hooks are compiled into /repo: contracts live in /verif/contracts and are applied to the ASTs of the working tree from outside",
        "baseline_off_cmd": "cd /repo && /venv/bin/python -m pytest -ra -q -p no:cacheprovider --timeout=900",
        "source_commits": [],
        "add_only": True,
    },
    "engines": [{
        "name": "pyvc",
        "path": "/verif/pyvc",
        "serves_properties": sorted(CLAIMED),
        "kind_free_text": "verification-condition generator for Python (AST of /repo/src re-read on every run -> symbolic executor with ropes, loop invariants, callee contracts -> z3 5.1); sidecar contracts in /verif/contracts",
    }],
    "checks": checks,
    "notes": "See DESIGN.md (10 = as built; 10.8a = third session). Each check also verifies the functions whose contracts its own proofs used at call sites (direct callees in the quick tier, transitive closure in the thorough tier). Bounded stand-ins exist in C05, C07, C08 only, are labelled under bounded_standins in the evidence and are never counted as proved. Exit 0 held / 1 violation / 3 checker error. KNOWN_FINDINGS.txt lists the 14 repaired defects (fix: commits in /repo); no open finding.",
    "not_applicable": na,
}
json.dump(m, open(os.path.join(HERE, "MANIFEST.json"), "w"), indent=1)
print("claimed:", sorted(CLAIMED), "not claimed:", len(na))
