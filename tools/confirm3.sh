#!/bin/bash
# tools/confirm3.sh <ID> [k ...]: round 3 (default k: 3 b1; k starting with b = behaviour-preserving change). Confirms /tmp/wt/<ID>/out/3 (breaking) and /tmp/wt/<ID>/out/b1 (benign) in that scratch worktree,
# copies confirmed ones to seeded/<ID>-3 and seeded/benign/<ID>-b1, then runs the property's quick check against the worktree with each
# patch applied. One summary line per patch.
id=$1; shift; ks="$@"; [ -z "$ks" ] && ks="3 b1"; wt=/tmp/wt/$id; cd /verif
export PYTHONDONTWRITEBYTECODE=1
for k in $ks; do
  d=$wt/out/$k; [ -f "$d/patch.diff" ] || { echo "$id-$k: no patch"; continue; }
  git -C $wt checkout -q -- .
  ( cd $wt && PYTHONPATH=$wt/src timeout 120 /venv/bin/python $d/demo.py >/dev/null 2>&1 ); clean=$?
  git -C $wt apply --check $d/patch.diff 2>/dev/null || { echo "$id-$k: patch does not apply"; continue; }
  git -C $wt apply $d/patch.diff
  tests=$(cd $wt && PYTHONPATH=$wt/src timeout 300 /venv/bin/python -m pytest -q -p no:cacheprovider 2>&1 | tail -1)
  ( cd $wt && PYTHONPATH=$wt/src timeout 120 /venv/bin/python $d/demo.py >/dev/null 2>&1 ); patched=$?
  ok=no
  if echo "$tests" | grep -q "276 passed" && [ $clean = 0 ]; then
    case $k in
      b*) if [ $patched = 0 ]; then ok=yes; dest=seeded/benign/$id-$k; fi;;
      *)  if [ $patched != 0 ]; then ok=yes; dest=seeded/$id-$k; fi;;
    esac
  fi
  if [ $ok = yes ]; then
    mkdir -p $dest; cp $d/patch.diff $d/demo.py $dest/
    python3 - "$d/meta.json" "$dest/meta.json" "$id" "$clean" "$patched" "$tests" "$(git -C /repo rev-parse --short HEAD)" <<'PY'
import json,sys
src,dst,pid,clean,patched,tests,head=sys.argv[1:]
try: m=json.load(open(src))
except Exception: m={}
m["property"]=pid
m["confirmed"]={"base_commit":head,"clean_tree_demo_exit":int(clean),"patched_tree_demo_exit":int(patched),"patched_tree_tests":tests,
 "ran":"git apply patch.diff in a scratch worktree; PYTHONPATH=<wt>/src /venv/bin/python -m pytest -q -p no:cacheprovider; PYTHONPATH=<wt>/src /venv/bin/python demo.py; git checkout -- ."}
json.dump(m,open(dst,"w"),indent=1)
PY
  fi
  out=$(./check $id --no-evidence --repo $wt 2>&1); code=$?
  git -C $wt checkout -q -- .
  echo "$out" > /tmp/wt/$id-$k.log
  viol=$(echo "$out" | grep -m1 -E '^(VIOLATION|CHECK-ERROR)' | sed -E 's#replay=/verif/replays/##' | cut -c1-200)
  echo "$id-$k: clean_demo=$clean patched_demo=$patched tests='$tests' confirmed=$ok | check exit=$code nviol=$(echo "$out" | grep -c '^VIOLATION') :: ${viol:--}"
done
