#!/usr/bin/env python3
"""Regenerates contracts/locals_baseline.json from a reference tree (default /repo): for every function, its parameters and local
names in order of first binding. Run only when the contracts are re-based on a new reference tree:
    python3-vt tools/gen_locals_baseline.py [repo]"""
import json
import os
import sys

HERE = os.path.dirname(os.path.dirname(os.path.abspath(__file__)))
sys.path.insert(0, HERE)
from pyvc.program import Program  # noqa: E402

P = Program(sys.argv[1] if len(sys.argv) > 1 else "/repo")
out = {fi.dotted: fi.local_names() for fi in P.funcs.values()}
out["#signatures"] = {fi.dotted: fi.local_signatures() for fi in P.funcs.values()}  # first-binding signature of every local
json.dump(out, open(os.path.join(HERE, "contracts", "locals_baseline.json"), "w"), indent=0, sort_keys=True)
print(len(out), "functions")
