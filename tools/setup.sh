#!/bin/sh
# Offline sanity check of what the checks need; nothing is built or fetched.
set -e
python3-vt -c "import z3; assert z3.get_version_string().startswith('5.'), z3.get_version_string()"
/venv/bin/python -c "import dpapi_ng, cryptography"
test -d /repo/src/dpapi_ng
echo setup-ok
