#!/usr/bin/env python3
"""tools/seeded_table.py RESULTS.txt -> markdown table of the seeded changes (summary from seeded/<id>/meta.json, verdict from
the run) written to seeded/RESULTS.md and spliced into DESIGN.md between the SEEDED-TABLE markers."""
import json
import os
import re
import sys

HERE = os.path.dirname(os.path.dirname(os.path.abspath(__file__)))
MARK = sys.argv[2] if len(sys.argv) > 2 else "SEEDED-TABLE"  # SEEDED-TABLE (breaking changes) | BENIGN-TABLE (behaviour-preserving ones)
SUB = sys.argv[3] if len(sys.argv) > 3 else "seeded"
BENIGN = MARK == "BENIGN-TABLE"
rows = []
for line in open(sys.argv[1]):
    m = re.match(r"(C\d+-b?\d+) (C\d+) exit=(\d+) violations=(\d+) replay-confirmed=(\d+) :: (.*)", line.strip())
    if not m:
        continue
    sid, prop, code, nv, conf, first = m.groups()
    meta = json.load(open(os.path.join(HERE, SUB, sid, "meta.json")))
    what = meta["summary"].split(". ")[0][:150]
    ob = re.search(r"obligation=(\S+)", first)
    if ob:
        name = ob.group(1)
    else:
        f = re.search(r"(C\d+-[^ ]+)\.json", first)
        name = f.group(1).split("-", 1)[1].replace("dpapi_ng.", "", 1) if f else first[:60]
    name = name.replace("dpapi_ng.", "")
    if len(name) > 95:
        name = name[:92] + "..."
    verdict = "caught" if code == "1" and int(nv) > 0 else f"NOT caught (exit {code})"
    if BENIGN:
        verdict = "no alarm" if code == "0" and int(nv) == 0 else f"FALSE ALARM (exit {code})"
        name = "-" if code == "0" else name
    rows.append((sid, what, verdict, nv, conf, name))
out = ["| change | what it does (all pass the 276 tests) | verdict | violations (replay-confirmed) | first obligation reported |", "|---|---|---|---|---|"]
if BENIGN:
    out[0] = "| change | what it does (behaviour-preserving; 276 tests and its own differential demo pass) | verdict | violations | first obligation reported |"
for sid, what, verdict, nv, conf, name in rows:
    out.append(f"| {sid} | {what} | {verdict} | {nv} ({conf}) | `{name}` |")
text = "\n".join(out)
open(os.path.join(HERE, "seeded", "RESULTS.md" if not BENIGN else "RESULTS-benign.md"), "w").write(text + "\n")
d = open(os.path.join(HERE, "DESIGN.md")).read()
d = re.sub(rf"<!-- {MARK}-BEGIN -->.*<!-- {MARK}-END -->", lambda m: f"<!-- {MARK}-BEGIN -->\n" + text + f"\n<!-- {MARK}-END -->", d, flags=re.S)
open(os.path.join(HERE, "DESIGN.md"), "w").write(d)
print(len(rows), "rows;", sum(1 for r in rows if r[2] in ("caught", "no alarm")), "caught / no alarm")
