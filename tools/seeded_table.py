#!/usr/bin/env python3
"""tools/seeded_table.py RESULTS.txt -> markdown table of the seeded changes (summary from seeded/<id>/meta.json, verdict from
the run) written to seeded/RESULTS.md and spliced into DESIGN.md between the SEEDED-TABLE markers."""
import json
import os
import re
import sys

HERE = os.path.dirname(os.path.dirname(os.path.abspath(__file__)))
rows = []
for line in open(sys.argv[1]):
    m = re.match(r"(C\d+-\d+) (C\d+) exit=(\d+) violations=(\d+) replay-confirmed=(\d+) :: (.*)", line.strip())
    if not m:
        continue
    sid, prop, code, nv, conf, first = m.groups()
    meta = json.load(open(os.path.join(HERE, "seeded", sid, "meta.json")))
    what = meta["summary"].split(". ")[0][:150]
    ob = re.search(r"obligation=(\S+)", first)
    if ob:
        name = ob.group(1)
    else:
        f = re.search(r"(C\d+-[^ ]+)\.json", first)
        name = f.group(1).split("-", 1)[1].replace("dpapi_ng.", "", 1) if f else first[:60]
    name = name.replace("dpapi_ng.", "")
    if len(name) > 95:
        name = name[:92] + "..."
    verdict = "caught" if code == "1" and int(nv) > 0 else f"NOT caught (exit {code})"
    rows.append((sid, what, verdict, nv, conf, name))
out = ["| change | what it does (all pass the 276 tests) | verdict | violations (replay-confirmed) | first obligation reported |", "|---|---|---|---|---|"]
for sid, what, verdict, nv, conf, name in rows:
    out.append(f"| {sid} | {what} | {verdict} | {nv} ({conf}) | `{name}` |")
text = "\n".join(out)
open(os.path.join(HERE, "seeded", "RESULTS.md"), "w").write(text + "\n")
d = open(os.path.join(HERE, "DESIGN.md")).read()
if "SEEDED_TABLE_PLACEHOLDER" in d:
    d = d.replace("SEEDED_TABLE_PLACEHOLDER", "<!-- SEEDED-TABLE-BEGIN -->\n" + text + "\n<!-- SEEDED-TABLE-END -->")
else:
    d = re.sub(r"<!-- SEEDED-TABLE-BEGIN -->.*<!-- SEEDED-TABLE-END -->", lambda m: "<!-- SEEDED-TABLE-BEGIN -->\n" + text + "\n<!-- SEEDED-TABLE-END -->", d, flags=re.S)
open(os.path.join(HERE, "DESIGN.md"), "w").write(d)
print(len(rows), "rows;", sum(1 for r in rows if r[2] == "caught"), "caught")
