"""Verdict, stdout lines, replay files and evidence for one property check (DESIGN 4, 7)."""
from __future__ import annotations

import json
import os
import time

HERE = os.path.dirname(os.path.abspath(__file__))
VERIF = os.path.dirname(HERE)

PY_ASSUMPTIONS = [
    "A-PY: CPython 3.12 semantics as encoded in pyvc/builtins.py and pyvc/interp.py (unbounded ints, slicing, truthiness, "
    "dataclass/enum/NamedTuple behaviour read from the imported working tree); 64-bit platform; single thread between awaits",
    "integers are mathematical (this is Python's semantics, not an idealisation)",
    "byte strings are ropes of typed segments; what cannot be resolved structurally is an opaque term (sound, incomplete)",
]


def decide(prop, args, P, REG, targets, assumed, results, seed, t0, known):
    tier = args.tier
    out_lines = []
    violations = []
    errors = []
    undisch_funcs = []
    total = 0
    discharged = 0
    by_backend = {}
    solver_ms = 0.0
    samples = []
    funcs = []
    second_instances = {}
    trusted = set()
    standins = []
    for r in results:
        tgt = r["target"]
        if r.get("error"):
            errors.append(f"{tgt}: {r['error'].splitlines()[0]}")
            print(r["error"])
        spec = REG.contracts[tgt]
        funcs.append(
            {
                "function": tgt,
                "file_sha256": r.get("file_sha"),
                "ast_hash": r.get("ast_hash"),
                "paths": r.get("paths"),
                "obligations": len(r["obligations"]),
                "wall_s": r.get("wall_s"),
                "solver_s": r.get("solver_s"),
                "queries": r.get("queries"),
                "inlined": r.get("inlined"),
                "callee_contracts": r.get("contract_calls"),
                "externals": r.get("extern_calls"),
                "out_of_reach": r.get("out_of_reach"),
            }
        )
        for e in r.get("extern_calls", []):
            trusted.add("assumed external contract: " + e)
        for cc in r.get("contract_calls", []):
            s2 = REG.contracts.get(cc)
            if s2 is not None and s2.assumed:
                trusted.add(f"assumed repo contract: {cc} ({s2.note})")
        if r.get("out_of_reach"):
            undisch_funcs.append((tgt, r["out_of_reach"]))
        if r.get("missing_covers") and not r.get("out_of_reach") and not r.get("error"):
            # a declared exit that no path reaches: either the contract is vacuous or the code lost a behaviour
            for cv in r["missing_covers"]:
                name = f"{tgt}/cover.{cv}"
                total += 1
                violations.append({"obligation": name, "status": "refuted", "detail": f"no feasible path reaches '{cv}' (vacuity / lost behaviour)", "model": None, "function": tgt})
        for ob in r["obligations"]:
            total += 1
            solver_ms += ob.get("ms", 0.0)
            by_backend[ob.get("backend", "z3-5.1")] = by_backend.get(ob.get("backend", "z3-5.1"), 0) + 1
            for be, vs in (ob.get("second") or {}).items():
                # second back ends (thorough tier): an obligation counts for a back end when that solver answered unsat on
                # every path instance of it; "sat" on any instance contradicts z3 5.1 and voids the run
                if vs.get("sat"):
                    errors.append(f"{ob['name']}: {be} answers sat where z3-5.1 answered unsat ({vs}) - solver disagreement, no verdict")
                elif vs.get("unsat") and not vs.get("unknown"):
                    by_backend[be] = by_backend.get(be, 0) + 1
                second_instances.setdefault(be, {"unsat": 0, "unknown": 0, "sat": 0})
                for verdict, n in vs.items():
                    second_instances[be][verdict] = second_instances[be].get(verdict, 0) + n
            if ob["status"] == "discharged":
                discharged += 1
            else:
                violations.append({"obligation": ob["name"], "status": ob["status"], "detail": ob.get("detail", ""), "model": ob.get("model"), "function": tgt,
                                   "inputs": ob.get("inputs"), "replay_meta": r.get("replay_meta")})
        for name, text in (r.get("smt2") or {}).items():
            if len(samples) < 4:
                samples.append({"obligation": name, "smtlib2": text[:3000]})
    for tgt, why in undisch_funcs:
        name = f"{tgt}/reach"
        total += 1
        rr = next(x for x in results if x["target"] == tgt)
        violations.append({"obligation": name, "status": "undischarged", "detail": f"function left the verifier's reach: {why}", "model": None, "function": tgt,
                           "inputs": rr.get("reach_inputs"), "replay_meta": rr.get("replay_meta")})

    for sb in getattr(args, "standins", None) or []:
        standins.append({k: v for k, v in sb.items() if k != "violations"} | {"violations": len(sb.get("violations") or [])})
        if sb.get("error"):
            errors.append(f"bounded stand-in for {sb['function']} could not run: {sb['error'][:200]}")
        for bv in sb.get("violations") or []:
            total += 1
            violations.append({"obligation": f"{sb['function']}/bounded.{sb['clause'].replace(' ', '-')}", "status": "refuted",
                               "detail": (f"measured on the real code: {bv['steps']} line events for an input of {bv['len']} bytes exceed the bound ({sb['bound']}); outcome {bv['outcome']}"
                                          if "steps" in bv else f"run on the real code (bounded stand-in, {sb['bound']}): input {bv.get('input')!r}: expected {bv.get('expected')!r}, got {bv.get('got')!r}"),
                               "model": None, "function": sb["function"], "inputs": None, "replay_meta": None, "measured": bv})

    exit_code = 0
    if errors:
        for e in errors:
            print(f"CHECK-ERROR property={prop} {e}")
        exit_code = 3
    if total == 0 and not errors:
        print(f"CHECK-ERROR property={prop} zero obligations generated")
        exit_code = 3

    os.makedirs(os.path.join(VERIF, "replays"), exist_ok=True)
    n_viol = 0
    known_hits = []
    for v in violations:
        kf = [k for k in known["finding"] if k["property"] == prop and k["obligation"] == v["obligation"]]
        if kf:
            print(f"KNOWN-FINDING: property={prop} {kf[0]['what']}")
            known_hits.append(v["obligation"])
            continue
        n_viol += 1
        safe = v["obligation"].replace("/", "_").replace("[", "(").replace("]", ")")
        path = os.path.join(VERIF, "replays", f"{prop}-{safe}.json")
        rep = {
            "property": prop,
            "obligation": v["obligation"],
            "function": v["function"],
            "status": v["status"],
            "detail": v["detail"],
            "solver_model": v["model"],
            "repo": args.repo,
            "tier": tier,
        }
        confirmed = None
        if v.get("measured"):
            confirmed = True  # a measurement on the real code: the failing input is in the file
            rep["replay"] = {"measured_on_real_code": v["measured"]}
        else:
            try:
                from pyvc.replay_driver import try_replay

                confirmed, observation = try_replay(prop, v, P, REG, args.repo)
                rep["replay"] = observation
            except Exception as e:  # replay machinery failure never changes the verdict
                rep["replay"] = {"error": f"{type(e).__name__}: {e}"}
        rep["confirmed_on_real_code"] = bool(confirmed)
        with open(path, "w") as f:
            json.dump(rep, f, indent=1, default=str)
        suffix = "" if confirmed else f" obligation={v['obligation']} no-failing-input-found"
        print(f"VIOLATION property={prop} replay={path}{suffix}")
        if exit_code == 0:
            exit_code = 1

    wall = time.time() - t0
    if not args.no_evidence and not args.only:
        ev = {
            "property_id": prop,
            "tier": tier if tier in ("quick", "thorough") else "quick",
            "seed": seed,
            "level": "proof",
            "coverage": {
                "obligations": total,
                "discharged": discharged,
                "checker_cmd": f"cd /verif && ./check {prop} --tier {tier}",
                "trusted_base": sorted(trusted) + [f"axiom: {n}" for n in REG.axiom_notes] + PY_ASSUMPTIONS,
                "functions_under_contract": funcs,
                "by_backend": by_backend,
                "second_backend_query_instances": second_instances or "thorough tier only",
                "solver_ms_total": round(solver_ms, 1),
                "bounded_standins": standins,
                "callee_contract_closure": {
                    "own_functions": getattr(args, "own_targets", len(targets)),
                    "callee_contract_functions_also_verified": len(targets) - getattr(args, "own_targets", len(targets)),
                    "note": "functions whose contracts the property's own proofs used at call sites (transitively) are verified in this run too, although other properties claim them",
                },
                "known_findings_matched": known_hits,
                "samples": samples or [{"note": "no SMT-LIB2 sample kept"}],
                "paths_explored": sum(f["paths"] or 0 for f in funcs),
                "explanation": "each obligation is a verification condition generated from the AST of the working tree and a sidecar contract; "
                "discharged = unsat of (path condition and not clause) in z3 5.1",
                "repo_root": args.repo,
                "g7_summary_conformance": ({k: v for k, v in args.g7.items() if k not in ("examples", "per_function")} if getattr(args, "g7", None) else "thorough tier only"),
                "g3_executor_vs_cpython": ({k: v for k, v in args.g3.items() if k not in ("examples", "per_function")} if getattr(args, "g3", None) else "not run (--only / PYVC_SKIP_G3)"),
                "source_sha256": {m: P.file_sha[m] for m in sorted(P.file_sha)},
            },
            "assumptions": sorted(trusted) + PY_ASSUMPTIONS,
            "wall_s": round(wall, 2),
            "violations": n_viol,
        }
        os.makedirs(args.evidence_dir, exist_ok=True)
        with open(os.path.join(args.evidence_dir, f"{prop}.json"), "w") as f:
            json.dump(ev, f, indent=1, default=str)
    print(
        f"{prop}: functions={len(targets)} obligations={total} discharged={discharged} violations={n_viol} "
        f"known={len(known_hits)} wall={wall:.1f}s solver={solver_ms / 1000:.1f}s exit={exit_code}"
    )
    return exit_code
