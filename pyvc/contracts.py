"""Contract registry and the contract context `c` handed to sidecar specifications (DESIGN 3.1)."""
from __future__ import annotations

import os

import ast

import z3

from . import rope as R
from .smt import Ref, Str, Z, blen, fresh_bool, fresh_bytes, fresh_int, fresh_ref, fresh_str, simp
from .values import (
    ClassRef,
    EngineError,
    OutOfReach,
    PathEnd,
    PyRaise,
    SBytes,
    SEnum,
    SExc,
    SObj,
    SRef,
    SStr,
    SUUID,
)


class Spec:
    def __init__(self, target, fn, props, assumed=False, note="", inline=False):
        self.target = target
        self.fn = fn
        self.props = list(props)
        self.assumed = assumed  # assumed contracts are applied at call sites but never verified (listed in trusted base)
        self.note = note
        self.inline = inline  # verified against its contract, but callers inline the body (more precise for leaf codecs)
        self.label = target  # name used in obligation names (variants: target#variant)


class Registry:
    def __init__(self):
        self.contracts: dict[str, Spec] = {}
        self.loops: dict = {}
        self.externs: dict = {}
        self.extern_methods: dict = {}
        self.extern_attrs: dict = {}
        self.extern_exceptions: dict = {}
        self.hooks: dict = {}
        self.axioms: list = []
        self.axiom_notes: list[str] = []
        self.lemmas: list = []
        self.disabled: set[str] = set()
        # module-level lists / dicts of the reference tree that are constant tables (filled at import time, never written
        # by the functions under contract): registries built by decorators and the static presentation contexts
        self.constant_globals = {"_PACKET_TYPE_REGISTRY", "_COMMAND_TYPE_REGISTRY", "_FLOOR_TYPE_REGISTRY", "_EPM_CONTEXTS", "_ISD_KEY_CONTEXTS"}

    # ---------------------------------------------------------------- registration (decorators)
    def contract(self, target, props=(), assumed=False, note="", inline=False):
        def deco(fn):
            self.contracts[target] = Spec(target, fn, props, assumed, note, inline)
            return fn

        return deco

    def variant(self, target, variant, props=(), note=""):
        """A further contract on the same function for another class of inputs (verified, never applied at call sites)."""

        def deco(fn):
            s = Spec(target, fn, props, False, note, True)
            s.label = f"{target}#{variant}"
            self.contracts[s.label] = s
            return fn

        return deco

    def lemma(self, name, props=(), note=""):
        """A ghost lemma over contracts: fn(c) states assumptions with c.assume and goals with c.prove; no code runs."""

        def deco(fn):
            s = Spec(f"lemma:{name}", fn, props, False, note, True)
            s.label = f"lemma:{name}"
            self.contracts[s.label] = s
            return fn

        return deco

    def loop(self, target, k, **ann):
        self.loops[(target, k)] = ann

    def extern(self, name):
        def deco(fn):
            self.externs[name] = fn
            return fn

        return deco

    def extern_method(self, name):
        def deco(fn):
            self.extern_methods[name] = fn
            return fn

        return deco

    def extern_attribute(self, kind, attr):
        def deco(fn):
            self.extern_attrs[(kind, attr)] = fn
            return fn

        return deco

    def axiom(self, formula, note="", symbols=None):
        """symbols: names of the uninterpreted functions the axiom is about; a quantified axiom is handed to the solver
        only on paths where one of them occurs."""
        self.axioms.append((formula, tuple(symbols)) if symbols else formula)
        self.axiom_notes.append(note)

    # ---------------------------------------------------------------- lookup
    def contract_for(self, dotted):
        if dotted in self.disabled:
            return None
        s = self.contracts.get(dotted)
        if s is not None and s.inline:
            return None
        return s

    def loop_annotation(self, fname, k):
        return self.loops.get((fname, k))

    def extern_attr(self, I, ref, name):
        h = self.extern_attrs.get((ref.kind, name))
        if h is None:
            return NotImplemented
        return h(I, ref)

    # ---------------------------------------------------------------- call-site application
    def apply_contract(self, I, spec, fi, bound):
        c = ContractCtx("call", I, fi, bound)
        trace = os.environ.get("PYVC_TRACE_SUMMARY")
        feas0 = I.ctx.feasible() if trace else None
        spec.fn(c)
        if trace and feas0 and any(w is None for _, w, _ in c._raises) and not I.ctx.feasible():
            # debugging aid: the summary's call-time assumptions contradict the caller's path although the summary also has
            # unconditional raise outcomes - those outcomes are lost on this path (see DESIGN 10.7, G7)
            with open(trace, "a") as f:
                f.write(f"{spec.label} called from {I.name_of(I.frames[-1].fi) if I.frames else '<top>'}\n")
        caller = I.name_of(I.frames[-1].fi) if I.frames else "<top>"
        k = I.call_ordinal(fi)
        base = f"{caller}/call[{fi.qualname}#{k}]"
        for label, cond in c._requires:
            I.ctx.prove(f"{base}.pre.{label}", cond)
        def charge_exc():
            for counter, bound_ in c._ghost_bounds_exc:
                d = fresh_int("dx_" + counter)
                I.ctx.assume(z3.And(d >= 0, d <= Z(bound_)))
                I.ctx.ghost[counter] = simp(Z(I.ctx.ghost.get(counter, 0)) + d)

        for exc, when, label in c._raises:
            if when is None:
                if I.ctx.branch(fresh_bool("mayraise")):
                    charge_exc()
                    I.raise_(exc)
            elif I.ctx.branch(when):
                charge_exc()
                I.raise_(exc)
        for eff in c._effects:
            eff()
        if c._has_returns:
            result = c._returns
        elif c._result_kind is not None:
            result = c._result_kind.fresh(c, "result")
        else:
            result = None
        for label, fn in c._ensures:
            I.ctx.assume(_conj(I, fn(result)))
        for label, thunk in c._posts:
            I.ctx.assume(_conj(I, thunk()))
        for counter, bound_ in c._ghost_bounds:
            d = fresh_int("d_" + counter)
            I.ctx.assume(z3.And(d >= 0, d <= Z(bound_)))
            cur = I.ctx.ghost.get(counter, 0)
            I.ctx.ghost[counter] = simp(Z(cur) + d)
        return result


def _conj(I, v):
    if isinstance(v, (list, tuple)):
        return I._and([_conj(I, x) for x in v])
    return v


# ================================================================================================ kinds


class Kind:
    def fresh(self, c, name):
        raise NotImplementedError

    def concretize(self, model, value, c):
        return None


class KInt(Kind):
    def __init__(self, lo=None, hi=None):
        self.lo, self.hi = lo, hi

    def fresh(self, c, name):
        v = z3.Int(name)
        if self.lo is not None:
            c.I.ctx.assume(v >= self.lo)
        if self.hi is not None:
            c.I.ctx.assume(v <= self.hi)
        if self.lo is not None and self.hi is not None:
            c.I.ctx.set_range(v, self.lo, self.hi)
        return v


class KBool(Kind):
    def fresh(self, c, name):
        return z3.Bool(name)


class KBytes(Kind):
    def __init__(self, length=None, kind="bytes", max_len=None):
        self.length = length
        self.kind = kind
        self.max_len = max_len

    def fresh(self, c, name):
        t = z3.Const(name, R.Bytes)
        c.I.ctx.assume(z3.And(blen(t) >= 0, blen(t) <= 2**63 - 1))  # A-PY: len(x) <= sys.maxsize on 64-bit CPython
        if self.length is not None:
            c.I.ctx.assume(blen(t) == Z(self.length))
        if self.max_len is not None:
            c.I.ctx.assume(blen(t) <= Z(self.max_len))
        return SBytes(R.Rope([R.full_atom(t, self.length if isinstance(self.length, int) else None)]), self.kind)


class KStr(Kind):
    def fresh(self, c, name):
        return SStr(z3.Const(name, Str))


class KUUID(Kind):
    def fresh(self, c, name):
        t = z3.Const(name, R.Bytes)
        c.I.ctx.assume(blen(t) == 16)
        return SUUID(R.Rope([R.full_atom(t, 16)]))


class KRef(Kind):
    def __init__(self, kind):
        self.kind = kind

    def fresh(self, c, name):
        return SRef(z3.Const(name, Ref), self.kind)


class KOptional(Kind):
    def __init__(self, inner):
        self.inner = inner

    def fresh(self, c, name):
        if c.I.ctx.branch(z3.Bool(name + "_is_none")):
            return None
        return self.inner.fresh(c, name)


class KConst(Kind):
    def __init__(self, value):
        self.value = value

    def fresh(self, c, name):
        return self.value


class KObj(Kind):
    """Instance of a repo class with field kinds (or fixed values)."""

    def __init__(self, cls_name, **fields):
        self.cls_name = cls_name
        self.fields = fields

    def fresh(self, c, name):
        cls = c.I.P.find_class(self.cls_name)
        if cls is None:
            raise EngineError(f"class {self.cls_name} not found")
        f = {}
        for k, v in self.fields.items():
            f[k] = v.fresh(c, f"{name}.{k}") if isinstance(v, Kind) else v
        # dataclass defaults for fields not given
        if cls.dataclass:
            for fd in cls.dataclass["fields"]:
                if fd["name"] not in f and fd["has_default"]:
                    f[fd["name"]] = c.I.from_dump(fd["default"])
        return SObj(cls, f)


class KEnum(Kind):
    def __init__(self, cls_name, members=None):
        self.cls_name = cls_name
        self.members = members

    def fresh(self, c, name):
        cls = c.I.P.find_class(self.cls_name)
        v = z3.Int(name)
        vals = sorted({int(d["v"]) for n, d in cls.enum["members"] if self.members is None or n in self.members})
        c.I.ctx.assume(z3.Or(*[v == x for x in vals]))
        return SEnum(cls, v)


class T:
    Int = KInt()
    Nat = KInt(lo=0)
    Bool = KBool()
    Bytes = KBytes()
    Str = KStr()
    UUID = KUUID()

    @staticmethod
    def int(lo=None, hi=None):
        return KInt(lo, hi)

    @staticmethod
    def bytes(length=None, kind="bytes", max_len=None):
        return KBytes(length, kind, max_len)

    @staticmethod
    def opt(inner):
        return KOptional(inner)

    @staticmethod
    def ref(kind):
        return KRef(kind)

    @staticmethod
    def obj(cls_name, **fields):
        return KObj(cls_name, **fields)

    @staticmethod
    def const(v):
        return KConst(v)

    @staticmethod
    def enum(cls_name, members=None):
        return KEnum(cls_name, members)


# ================================================================================================ context


class ContractCtx:
    def __init__(self, mode, I, fi, bound):
        self.mode = mode
        self.I = I
        self.fi = fi
        self.bound = bound
        self.args: dict = {}
        self._requires = []
        self._ensures = []
        self._posts = []
        self._posts_exc = []
        self._raises = []
        self._raises_only = None
        self._effects = []
        self._returns = None
        self._has_returns = False
        self._result_kind = None
        self._ghost_bounds = []
        self._ghost_bounds_exc = []
        self._expect_covers = []
        self._no_return = False
        self._replay_meta = {}
        self.label = fi.dotted if fi is not None else "lemma"
        self.ctx = I.ctx

    @property
    def verifying(self):
        return self.mode == "verify"

    # ---------------------------------------------------------------- parameters
    def param(self, name, kind=None):
        actual = name
        if self.fi is not None:
            a = self.fi.node.args
            have = {q.arg for q in a.posonlyargs + a.args + a.kwonlyargs}
            if name not in have:
                from .program import rename_map

                actual = rename_map(self.fi).get(name, name)  # a parameter that was only renamed
        if self.mode == "call":
            if actual not in self.bound:
                raise OutOfReach(f"the contract of {self.fi.dotted} names a parameter '{name}' that the current function does not have")
            return self.bound[actual]
        v = kind.fresh(self, name) if isinstance(kind, Kind) else kind
        self.args[actual] = v
        return v

    def fresh(self, kind, name):
        return kind.fresh(self, name)

    # ---------------------------------------------------------------- clauses
    def requires(self, cond, label=None):
        self._requires.append((label or str(len(self._requires)), _conj(self.I, cond)))

    def returns(self, value):
        self._returns = value
        self._has_returns = True

    def result(self, kind):
        self._result_kind = kind

    def ensures(self, label, fn):
        self._ensures.append((label, fn))

    def post(self, label, thunk):
        """State postcondition: thunk() -> condition, evaluated at normal exit (verify) / assumed after effects (call)."""
        self._posts.append((label, thunk))

    def post_exc(self, label, thunk):
        """Exceptional postcondition: thunk(exc) -> condition, checked when the function exits with an exception."""
        self._posts_exc.append((label, thunk))

    def effect(self, fn):
        """State change performed at a call site that uses this contract (call mode only)."""
        self._effects.append(fn)

    def raises(self, exc, when=None, label=None):
        self._raises.append((exc, None if when is None else _conj(self.I, when), label))

    def raises_only(self, names):
        self._raises_only = set(names)

    def ghost_bound(self, counter, bound, on_raise=None):
        """counter_after - counter_before <= bound at normal exit; with on_raise (a bound in terms of the INPUTS only) also at every
        exceptional exit - and call sites then charge on_raise before taking one of the summary's raise outcomes."""
        self._ghost_bounds.append((counter, bound))
        if on_raise is not None:
            self._ghost_bounds_exc.append((counter, on_raise))

    def loop(self, k, target=None, **ann):
        self.I.local_loops[(target or self.fi.dotted, k)] = ann

    def replay(self, **meta):
        """Replay metadata: oracle (python source), setup (python source), stubs, budget, skip (reason)."""
        self._replay_meta.update(meta)

    def expect_cover(self, *labels):
        self._expect_covers.extend(labels)

    def no_normal_return(self):
        self._no_return = True

    def assume(self, cond):
        self.I.ctx.assume(_conj(self.I, cond))

    def prove(self, label, cond):
        """(lemmas) obligation: the assumptions made so far entail cond"""
        self.I.ctx.prove(f"{self.label}/{label}", _conj(self.I, cond))

    def inline_instead(self):
        """Call mode: do not use this contract at this call site, execute the callee's body."""
        from .values import InlineInstead

        raise InlineInstead()

    # ---------------------------------------------------------------- helpers for specs
    def eq(self, a, b):
        return self.I.eq(a, b)

    def rope(self, *parts):
        """Build a bytes value from parts: bytes literals, SBytes, ropes, segments."""
        segs = []
        for p in parts:
            if isinstance(p, (bytes, bytearray)):
                segs.append(R.Lit(bytes(p)))
            elif isinstance(p, SBytes):
                segs.extend(p.rope.segs)
            elif isinstance(p, R.Rope):
                segs.extend(p.segs)
            elif isinstance(p, SUUID):
                segs.extend(p.rope.segs)
            else:
                segs.append(p)
        return SBytes(R.Rope(segs))

    def le(self, x, n):
        return R.IntSeg(x, n, "little")

    def be(self, x, n):
        return R.IntSeg(x, n, "big")

    def zeros(self, n):
        return R.Zeros(n)

    def len(self, v):
        return self.I.bytes_len(v)

    def div(self, a, K):
        return self.I.ctx.div(a, K)

    def mod(self, a, K):
        return self.I.ctx.mod(a, K)

    def implies(self, a, b):
        if a is True:
            return b
        if a is False:
            return True
        if b is True:
            return True
        return simp(z3.Implies(Z(a), Z(b)))

    def And(self, *xs):
        return self.I._and(list(xs))

    def Or(self, *xs):
        return self.I._or(list(xs))

    def Not(self, x):
        return self.I._not(x)
