"""Engine side of the replay: model -> concrete inputs, run pyvc/replay.py on the real code, judge the outcome."""
from __future__ import annotations

import json
import os
import subprocess

import z3

from . import rope as R
from .smt import blen, byte_at
from .values import SBytes, SEnum, SObj, SRef, SStr, SUUID, SView

HERE = os.path.dirname(os.path.abspath(__file__))
VENV_PY = "/venv/bin/python"


def _int(m, t, default=0):
    try:
        v = m.eval(t, model_completion=True)
        if z3.is_int_value(v):
            return v.as_long()
    except Exception:
        pass
    return default


def rope_bytes(m, rope, fill=0x41):
    out = bytearray()
    for s in rope.segs:
        if isinstance(s, R.Lit):
            out += s.data
        elif isinstance(s, R.IntSeg):
            v = _int(m, z3.IntVal(s.x) if isinstance(s.x, int) else s.x) % (256**s.n)
            out += v.to_bytes(s.n, s.order)
        elif isinstance(s, R.Zeros):
            out += b"\x00" * max(0, min(_int(m, z3.IntVal(s.n) if isinstance(s.n, int) else s.n), 1 << 20))
        elif isinstance(s, R.Atom):
            lo = _int(m, z3.IntVal(s.lo) if isinstance(s.lo, int) else s.lo)
            hi = _int(m, z3.IntVal(s.hi) if isinstance(s.hi, int) else s.hi)
            n = max(0, min(hi - lo, 1 << 20))
            for i in range(n):
                if i < 256:
                    b = _int(m, byte_at(s.term, lo + i), None)
                    out.append(b if b is not None and 0 <= b <= 255 else fill)
                else:
                    out.append(fill)
    return bytes(out)


def concretize(I, v, m, depth=0):
    if depth > 8:
        return None
    if v is None or isinstance(v, (bool, int, str)):
        return v
    if isinstance(v, z3.ArithRef):
        return _int(m, v)
    if isinstance(v, z3.BoolRef):
        return z3.is_true(m.eval(v, model_completion=True))
    if isinstance(v, (SBytes, SView)):
        kind = getattr(v, "kind", "bytes")
        return {"__t__": kind if kind in ("bytes", "bytearray", "memoryview") else "bytes", "hex": rope_bytes(m, I.rope_of(v)).hex()}
    if isinstance(v, SUUID):
        b = rope_bytes(m, v.rope, fill=0x11)
        return {"__t__": "uuid", "hex": (b + b"\x11" * 16)[:16].hex()}
    if isinstance(v, SStr):
        from .smt import _str_lits

        def text_of(t):
            # structural value of a text term: concatenations, decimal renderings of integers and literals are rebuilt from
            # the model; any other (uninterpreted) text has no concrete value
            if z3.is_app(t) and t.decl().name() == "STRCAT":
                a, b = text_of(t.arg(0)), text_of(t.arg(1))
                return None if a is None or b is None else a + b
            if z3.is_app(t) and t.decl().name() == "STR_OF_INT":
                n = _int(m, t.arg(0), None)
                return None if n is None else str(n)
            for lit, lt in _str_lits.items():
                if lt.eq(t):
                    return lit
            return None

        try:
            built = text_of(v.term)
            if built is not None:
                return built
        except Exception:
            pass
        try:
            mv = m.eval(v.term, model_completion=True)
            for s, t in _str_lits.items():
                if m.eval(t, model_completion=True).eq(mv):
                    return s
        except Exception:
            pass
        return "sym-" + str(v.term)[:12]
    if isinstance(v, SEnum):
        return {"__t__": "enum", "cls": v.cls.ref, "value": concretize(I, v.value, m, depth + 1)}
    if isinstance(v, SRef):
        if v.kind == "HashAlgorithm":
            from contracts.externs import HASH_CONST

            try:
                mv = m.eval(v.term, model_completion=True)
                for n, t in HASH_CONST.items():
                    if m.eval(t, model_completion=True).eq(mv):
                        return {"__t__": "hash", "name": n}
            except Exception:
                pass
            return {"__t__": "hash", "name": "SHA256"}
        return {"__t__": "unsupported", "what": f"external object {v.kind}"}
    if isinstance(v, SObj):
        return {"__t__": "obj", "cls": v.cls.ref, "fields": {k: concretize(I, x, m, depth + 1) for k, x in v.fields.items()}}
    if isinstance(v, list):
        return {"__t__": "list", "items": [concretize(I, x, m, depth + 1) for x in v]}
    if isinstance(v, tuple):
        return {"__t__": "tuple", "items": [concretize(I, x, m, depth + 1) for x in v]}
    from .values import ClassRef

    if isinstance(v, ClassRef):
        return {"__t__": "class", "ref": v.cls.ref}
    return {"__t__": "unsupported", "what": type(v).__name__}


def concretize_call(I, c, m):
    """Inputs of the function under verification + values of external events, from a counter-model."""
    args = {k: concretize(I, v, m) for k, v in c.args.items()}
    events = []
    for kind, data in I.ctx.trace:
        d = {}
        for k, v in data.items():
            if isinstance(v, z3.ArithRef):
                d[k] = _int(m, v)
            elif isinstance(v, (int, str, bool)) or v is None:
                d[k] = v
        events.append([kind, d])
    return {"args": args, "events": events}


def run_real(repo, request, timeout=120):
    env = dict(os.environ)
    env["PYTHONPATH"] = os.path.join(repo, "src")
    env["PYTHONDONTWRITEBYTECODE"] = "1"
    p = subprocess.run([VENV_PY, os.path.join(HERE, "replay.py")], input=json.dumps(request), capture_output=True, text=True, env=env, timeout=timeout)
    try:
        return json.loads(p.stdout)
    except Exception:
        return {"kind": "harness-error", "repr": (p.stderr or p.stdout)[-500:]}


def try_replay(prop, v, P, REG, repo):
    """Returns (confirmed: bool, observation: dict)."""
    inputs = v.get("inputs")
    meta = v.get("replay_meta") or {}
    if not inputs:
        return False, {"note": "the solver gave no usable counter-model for the function's inputs"}
    if '"unsupported"' in json.dumps(inputs.get("args")) and not meta.get("setup"):
        return False, {"note": "the inputs contain an external object that the generic replay cannot construct", "inputs": inputs}
    if meta.get("skip"):
        return False, {"note": "no generic replay for this function: " + meta["skip"], "inputs": inputs}
    stubs = {}
    for kind, d in inputs.get("events", []):
        if kind == "time_ns" and "time.time_ns" not in stubs:
            stubs["time.time_ns"] = {"__t__": "const_fn", "value": d.get("value", 0)}
    req = {
        "function": v["function"],
        "args": inputs["args"],
        "stubs": {**stubs, **(meta.get("stubs") or {})},
        "budget": meta.get("budget", 300000),
        "oracle": meta.get("oracle"),
        "setup": meta.get("setup"),
    }
    req["function"] = v["function"].split("#")[0]
    obs = run_real(repo, req)
    name = v["obligation"].split("/", 1)[1] if "/" in v["obligation"] else v["obligation"]
    confirmed = False
    why = ""
    allowed = meta.get("allowed")
    if allowed is not None:
        # contract names may be qualified (module:Class, package.Class); the observation lists bare class names of the MRO
        allowed = sorted({a.split(":")[-1].split(".")[-1] for a in allowed} | set(allowed))
    if obs.get("kind") == "harness-error":
        return False, {"request": req, "observation": obs}
    expected = inputs.get("expected")
    if expected is not None and obs.get("kind") == "return" and (name.endswith("post.result") or name.endswith("reach")) and not same_value(obs.get("value"), expected):
        return True, {"request": req, "observation": obs, "expected": expected, "judgement": "the real code returns a value different from the specified one"}
    if expected is not None and obs.get("kind") == "raise" and (name.endswith("post.result") or name.endswith("reach")) and allowed is not None and not (set(obs.get("mro", [])) & set(allowed)):
        return True, {"request": req, "observation": obs, "expected": expected, "judgement": f"{obs['type']} on the real code where the contract specifies a value"}
    if obs.get("oracle"):
        confirmed, why = True, f"oracle: {obs['oracle']}"
    elif obs.get("kind") == "budget":
        confirmed, why = True, "step budget exceeded on the real code"
    elif name.startswith("raises.only") or ".raises.only" in name:
        if obs.get("kind") == "raise" and allowed is not None and not (set(obs.get("mro", [])) & set(allowed)):
            confirmed, why = True, f"{obs['type']} escaped on the real code"
    elif name.startswith("raises.") and not name.endswith(".justified"):
        if obs.get("kind") == "return":
            confirmed, why = True, "the real code returned although the contract demands an exception"
    elif obs.get("kind") == "raise" and allowed is not None and not (set(obs.get("mro", [])) & set(allowed)):
        confirmed, why = True, f"{obs['type']} escaped on the real code"
    return confirmed, {"request": req, "observation": obs, "judgement": why or "the observed behaviour does not by itself contradict the clause"}


def same_value(a, b):
    """Structural comparison of replay.describe() output with replay_driver.concretize() output."""
    if isinstance(a, dict) and isinstance(b, dict):
        ta, tb = a.get("__t__"), b.get("__t__")
        if ta in ("bytes", "bytearray", "memoryview") and tb in ("bytes", "bytearray", "memoryview"):
            return a.get("hex") == b.get("hex")
        if ta != tb:
            if tb in ("list", "tuple"):
                return False
            return False
        if ta == "obj":
            if a.get("cls") != b.get("cls"):
                return False
            fa, fb = a.get("fields", {}), b.get("fields", {})
            return all(same_value(fa.get(k), v) for k, v in fb.items())
        if ta == "enum":
            return same_value(a.get("value"), b.get("value"))
        if ta == "uuid":
            return a.get("hex") == b.get("hex")
        return a == b
    if isinstance(a, list) and isinstance(b, dict) and b.get("__t__") in ("list", "tuple"):
        return len(a) == len(b["items"]) and all(same_value(x, y) for x, y in zip(a, b["items"]))
    if isinstance(a, dict) and a.get("__t__") == "enum" and not isinstance(b, dict):
        return a.get("value") == b
    return a == b


def rerun(path, repo):
    rep = json.load(open(path))
    r = rep.get("replay") or {}
    req = r.get("request")
    if not req:
        print("replay file has no executable request (obligation:", rep.get("obligation"), ")")
        print(json.dumps(rep.get("solver_model"), indent=1)[:2000])
        return 0
    obs = run_real(repo, req)
    print(json.dumps(obs, indent=1)[:4000])
    return 0
