"""Program table: ASTs of the working tree + introspected class/constant tables (DESIGN 2.1, 2.2)."""
from __future__ import annotations

import ast
import hashlib
import json
import os
import subprocess
import sys

PKG = "dpapi_ng"
VENV_PY = "/venv/bin/python"
HERE = os.path.dirname(os.path.abspath(__file__))


class FuncInfo:
    def __init__(self, module, qualname, node, cls_ref):
        self.module = module
        self.qualname = qualname
        self.node = node
        self.cls_ref = cls_ref  # "module:Class" or None
        self.is_async = isinstance(node, ast.AsyncFunctionDef)

    @property
    def ref(self):
        return f"{self.module}:{self.qualname}"

    @property
    def dotted(self):
        return f"{self.module}.{self.qualname}"

    def ast_hash(self):
        return hashlib.sha256(ast.dump(self.node, include_attributes=False).encode()).hexdigest()[:16]

    def local_names(self):
        """Parameters, then the other local names in the order of their first binding in the source (nested functions, lambdas
        and comprehensions have their own scopes and are skipped). Used to follow pure renamings of locals (rename_map)."""
        names = []

        def add(n):
            if n not in names:
                names.append(n)

        a = self.node.args
        for q in a.posonlyargs + a.args + ([a.vararg] if a.vararg else []) + a.kwonlyargs + ([a.kwarg] if a.kwarg else []):
            add(q.arg)

        def visit(n):
            if isinstance(n, (ast.FunctionDef, ast.AsyncFunctionDef, ast.Lambda, ast.ListComp, ast.SetComp, ast.DictComp, ast.GeneratorExp, ast.ClassDef)):
                if isinstance(n, (ast.FunctionDef, ast.AsyncFunctionDef, ast.ClassDef)):
                    add(n.name)
                return
            if isinstance(n, ast.Name) and isinstance(n.ctx, ast.Store):
                add(n.id)
            if isinstance(n, ast.ExceptHandler) and n.name:
                add(n.name)
            if isinstance(n, (ast.Assign, ast.AugAssign, ast.AnnAssign)):
                # value first (it is evaluated first), then the targets - source order of BINDING is what matters here
                for t in (n.targets if isinstance(n, ast.Assign) else [n.target]):
                    visit(t)
                if n.value is not None:
                    visit(n.value)
                return
            for ch in ast.iter_child_nodes(n):
                visit(ch)

        for st in self.node.body:
            visit(st)
        return names

    def is_straightline_leaf(self, repo_names):
        """No loop, no comprehension, no await, and no call whose callee could be a function, method or class of the package
        (by bare name): executing the body costs a constant number of statements plus built-in work. Such a call is not
        counted as a step of the cost measure (DESIGN 10.9), so extracting a straight-line helper does not change step counts."""
        cached = getattr(self, "_leaf", None)
        if cached is not None:
            return cached
        leaf = True
        for n in ast.walk(self.node):
            if isinstance(n, (ast.For, ast.AsyncFor, ast.While, ast.ListComp, ast.SetComp, ast.DictComp, ast.GeneratorExp, ast.Await, ast.Lambda)):
                leaf = False
                break
            if isinstance(n, ast.Call):
                f = n.func
                name = f.id if isinstance(f, ast.Name) else f.attr if isinstance(f, ast.Attribute) else None
                if name is None or name in repo_names:
                    leaf = False
                    break
        self._leaf = leaf
        return leaf

    def local_signatures(self):
        """{local name: how it is first bound}, with the names of the function's own locals wildcarded - so that a renamed local
        keeps its signature. Used by rename_map when locals were renamed AND others were added or removed in the same function."""
        names = set(self.local_names())
        sigs = {}

        def norm(n):
            if n is None:
                return "None"

            class W(ast.NodeTransformer):
                def visit_Name(self, x):
                    return ast.copy_location(ast.Name(id="_" if x.id in names else x.id, ctx=ast.Load()), x)

            import copy

            return ast.dump(W().visit(copy.deepcopy(n)), include_attributes=False)

        def bind(t, how):
            if isinstance(t, ast.Name):
                sigs.setdefault(t.id, how)
            elif isinstance(t, (ast.Tuple, ast.List)):
                for i, e in enumerate(t.elts):
                    bind(e, f"{how}[{i}/{len(t.elts)}]")
            elif isinstance(t, ast.Starred):
                bind(t.value, how + "*")

        def visit(n):
            if isinstance(n, (ast.FunctionDef, ast.AsyncFunctionDef, ast.ClassDef)):
                sigs.setdefault(n.name, "def")
                return
            if isinstance(n, (ast.Lambda, ast.ListComp, ast.SetComp, ast.DictComp, ast.GeneratorExp)):
                return
            if isinstance(n, ast.Assign):
                for t in n.targets:
                    bind(t, "assign:" + norm(n.value))
            elif isinstance(n, ast.AnnAssign):
                bind(n.target, "assign:" + norm(n.value))
            elif isinstance(n, ast.AugAssign):
                bind(n.target, "aug:" + type(n.op).__name__)
            elif isinstance(n, (ast.For, ast.AsyncFor)):
                bind(n.target, "for:" + norm(n.iter))
            elif isinstance(n, (ast.With, ast.AsyncWith)):
                for it in n.items:
                    if it.optional_vars is not None:
                        bind(it.optional_vars, "with:" + norm(it.context_expr))
            elif isinstance(n, ast.ExceptHandler) and n.name:
                sigs.setdefault(n.name, "except:" + norm(n.type))
            elif isinstance(n, ast.NamedExpr):
                bind(n.target, "walrus:" + norm(n.value))
            for ch in ast.iter_child_nodes(n):
                visit(ch)

        for st in self.node.body:
            visit(st)
        return sigs

    def __repr__(self):
        return f"<func {self.dotted}>"


_LOCALS_BASELINE = None


def locals_baseline():
    """contracts/locals_baseline.json: the local names of every function of the reference tree the contracts were written against"""
    global _LOCALS_BASELINE
    if _LOCALS_BASELINE is None:
        import json
        import os

        path = os.path.join(os.path.dirname(os.path.dirname(os.path.abspath(__file__))), "contracts", "locals_baseline.json")
        try:
            _LOCALS_BASELINE = json.load(open(path))
        except Exception:
            _LOCALS_BASELINE = {}
    return _LOCALS_BASELINE


def rename_map(fi):
    """{name in the reference tree: name in the current tree} when the function's locals differ from the reference only by a
    renaming (same number of locals, matched by order of first binding). The contracts name locals and parameters of the reference
    tree; invariants and postconditions are PROVED against the current code, so a wrong guess here can only make a proof fail,
    never pass."""
    cached = getattr(fi, "_rename_map", None)
    if cached is not None:
        return cached
    base = locals_baseline().get(fi.dotted)
    cur = fi.local_names()
    m = {}
    if base and len(base) == len(cur):
        m = {b: c for b, c in zip(base, cur) if b != c}
    elif base:
        # locals were added or removed as well: names that still exist keep their meaning; a reference name that is gone is
        # matched to a NEW name with the same first-binding signature (value expression with local names wildcarded) when that
        # match is unique, and the left-overs by order of first binding when equally many remain on both sides
        bsig = (locals_baseline().get("#signatures") or {}).get(fi.dotted) or {}
        csig = fi.local_signatures()
        gone = [b for b in base if b not in cur]
        new = [c for c in cur if c not in base]
        for b in list(gone):
            cands = [c for c in new if b in bsig and csig.get(c) == bsig[b]]
            same_b = [x for x in gone if bsig.get(x) == bsig.get(b)]
            if len(cands) == 1 and len(same_b) == 1:
                m[b] = cands[0]
                gone.remove(b)
                new.remove(cands[0])
        if gone and len(gone) == len(new):
            m.update(dict(zip(gone, new)))
    fi._rename_map = m
    return m


class ClassInfo:
    def __init__(self, table):
        self.t = table
        self.ref = table["ref"]
        self.module = table["module"]
        self.qualname = table["qualname"]
        self.name = self.qualname.split(".")[-1]
        self.mro = table["mro"]
        self.is_exception = table.get("is_exception", False)
        self.dataclass = table.get("dataclass")
        self.enum = table.get("enum")
        self.namedtuple = table.get("namedtuple")
        self.attrs = table.get("attrs", {})
        self.methods = table.get("methods", {})

    def __repr__(self):
        return f"<class {self.ref}>"


class Program:
    def __init__(self, repo_root: str):
        self.repo_root = os.path.abspath(repo_root)
        self.src = os.path.join(self.repo_root, "src")
        self.funcs: dict[str, FuncInfo] = {}  # ref -> FuncInfo
        self.module_ast: dict[str, ast.Module] = {}
        self._callable_names = None
        self.module_file: dict[str, str] = {}
        self.file_sha: dict[str, str] = {}
        self.imports: dict[str, dict[str, tuple]] = {}  # module -> name -> ("mod", modname) | ("from", modname, name)
        self.classes: dict[str, ClassInfo] = {}
        self.globals: dict[str, dict] = {}
        self._load_ast()
        self._load_introspection()

    # ---------------------------------------------------------------- AST
    def _load_ast(self):
        base = os.path.join(self.src, PKG)
        for root, _dirs, files in os.walk(base):
            for fn in sorted(files):
                if not fn.endswith(".py"):
                    continue
                path = os.path.join(root, fn)
                rel = os.path.relpath(path, self.src)[:-3].replace(os.sep, ".")
                if rel.endswith(".__init__"):
                    rel = rel[: -len(".__init__")]
                text = open(path, encoding="utf-8").read()
                self.file_sha[rel] = hashlib.sha256(text.encode()).hexdigest()
                tree = ast.parse(text, filename=path)
                self.module_ast[rel] = tree
                self.module_file[rel] = path
                self.imports[rel] = {}
                self._index(rel, tree, is_pkg=fn == "__init__.py")

    def _index(self, module, tree, is_pkg):
        def walk(body, prefix, cls_ref):
            for node in body:
                if isinstance(node, (ast.FunctionDef, ast.AsyncFunctionDef)):
                    q = prefix + node.name
                    self.funcs[f"{module}:{q}"] = FuncInfo(module, q, node, cls_ref)
                    walk(node.body, q + ".<locals>.", None)
                elif isinstance(node, ast.ClassDef):
                    q = prefix + node.name
                    walk(node.body, q + ".", f"{module}:{q}")
                elif isinstance(node, (ast.If, ast.With, ast.Try)):
                    pass

        walk(tree.body, "", None)
        pkg_parts = module.split(".") if is_pkg else module.split(".")[:-1]
        for node in tree.body:
            if isinstance(node, ast.Import):
                for a in node.names:
                    self.imports[module][a.asname or a.name.split(".")[0]] = ("mod", a.name if a.asname else a.name.split(".")[0])
            elif isinstance(node, ast.ImportFrom):
                if node.level:
                    base = pkg_parts[: len(pkg_parts) - (node.level - 1)]
                    modname = ".".join(base + ([node.module] if node.module else []))
                else:
                    modname = node.module
                for a in node.names:
                    self.imports[module][a.asname or a.name] = ("from", modname, a.name)

    # ---------------------------------------------------------------- introspection
    def _load_introspection(self):
        env = dict(os.environ)
        env["PYTHONPATH"] = self.src
        env["PYTHONDONTWRITEBYTECODE"] = "1"
        p = subprocess.run([VENV_PY, os.path.join(HERE, "introspect.py")], capture_output=True, text=True, env=env)
        if p.returncode != 0:
            raise RuntimeError("introspection of the working tree failed:\n" + p.stderr[-2000:])
        data = json.loads(p.stdout)
        for mod, info in data["modules"].items():
            f = info.get("file") or ""
            if f and not os.path.abspath(f).startswith(self.src):
                raise RuntimeError(f"introspection imported {mod} from {f}, not from {self.src}")
            self.globals[mod] = info["globals"]
        for ref, table in data["classes"].items():
            self.classes[ref] = ClassInfo(table)
        self.python = data["python"]

    # ---------------------------------------------------------------- lookup
    def repo_callable_names(self):
        """bare names of every function, method and class of the package (for FuncInfo.is_straightline_leaf)"""
        if self._callable_names is None:
            names = {fi.node.name for fi in self.funcs.values()}
            names |= {ref.split(":")[-1].split(".")[-1] for ref, ci in self.classes.items() if not ci.is_exception}  # raising is not a call
            self._callable_names = names
        return self._callable_names

    def find_func(self, dotted: str) -> FuncInfo | None:
        """dotted: dpapi_ng._gkdi.compute_l2_key or dpapi_ng._client.KeyCache._get_key"""
        parts = dotted.split(".")
        for i in range(len(parts) - 1, 0, -1):
            mod = ".".join(parts[:i])
            if mod in self.module_ast:
                q = ".".join(parts[i:])
                fi = self.funcs.get(f"{mod}:{q}")
                if fi is not None:
                    return fi
        return None

    def find_class(self, name: str) -> ClassInfo | None:
        if name in self.classes:
            return self.classes[name]
        cands = [c for c in self.classes.values() if c.qualname == name or c.name == name]
        # classes re-exported appear once in the table (keyed by defining module)
        if len(cands) == 1:
            return cands[0]
        return None

    def method(self, cls: ClassInfo, name: str):
        """Resolve a method through the MRO. Returns (FuncInfo, kind, owner ClassInfo) or None."""
        for ref in cls.mro:
            c = self.classes.get(ref)
            if c is None:
                continue
            m = c.methods.get(name)
            if m is not None:
                fi = self.funcs.get(m["func"])
                if fi is None:
                    return None
                return fi, m["kind"], c
        return None

    def class_attr(self, cls: ClassInfo, name: str):
        for ref in cls.mro:
            c = self.classes.get(ref)
            if c is None:
                continue
            if name in c.attrs:
                return c.attrs[name]
            if c.dataclass:
                for f in c.dataclass["fields"]:
                    if f["name"] == name and f["has_default"]:
                        return f["default"]
        return None

    def is_subclass(self, cls: ClassInfo, other_ref: str) -> bool:
        return other_ref in cls.mro
