"""Fork-based path exploration: at a branch where both sides are feasible the process forks instead of scheduling a
re-execution; the child takes one side with the whole interpreter and solver state already built (copy-on-write), so
the common prefix of two paths is executed once. A shared semaphore bounds the number of live processes; when no slot
is free the classic worklist (decision prefix, re-executed later) is used."""
from __future__ import annotations

import multiprocessing as mp
import os
import pickle
import tempfile

SLOTS = None
PATHS = None  # shared count of the paths explored for the function currently being verified (all processes forked for it)
TMP = None
ENABLED = False
CHILDREN: list = []
IS_CHILD = False


def enable(n):
    global SLOTS, TMP, ENABLED
    SLOTS = mp.get_context("fork").Semaphore(max(0, n - 1))
    TMP = tempfile.mkdtemp(prefix="pyvc-fork-")
    ENABLED = n > 1


def disable():
    global ENABLED
    ENABLED = False
    if TMP and os.path.isdir(TMP):
        import shutil

        shutil.rmtree(TMP, ignore_errors=True)


def try_fork():
    """Returns 'child', 'parent' or None (no slot)."""
    global CHILDREN, IS_CHILD
    if not ENABLED or SLOTS is None:
        return None
    if not SLOTS.acquire(block=False):
        return None
    pid = os.fork()
    if pid == 0:
        IS_CHILD = True
        CHILDREN = []
        return "child"
    CHILDREN.append(pid)
    return "parent"


def collect():
    """Wait for this process's children and return their pickled results."""
    out = []
    for pid in CHILDREN:
        try:
            os.waitpid(pid, 0)
        except ChildProcessError:
            pass
        path = os.path.join(TMP, f"{pid}.pkl")
        if os.path.exists(path):
            with open(path, "rb") as f:
                out.append(pickle.load(f))
            os.unlink(path)
        else:
            out.append(None)
    CHILDREN.clear()
    return out


def child_exit(result):
    with open(os.path.join(TMP, f"{os.getpid()}.pkl.tmp"), "wb") as f:
        pickle.dump(result, f)
    os.rename(os.path.join(TMP, f"{os.getpid()}.pkl.tmp"), os.path.join(TMP, f"{os.getpid()}.pkl"))
    SLOTS.release()
    os._exit(0)


def new_path_counter():
    """called where the exploration of ONE function starts; every process forked for that function inherits the counter"""
    global PATHS
    PATHS = mp.get_context("fork").Value("l", 0)


def count_path():
    if PATHS is None:
        return 0
    with PATHS.get_lock():
        PATHS.value += 1
        return PATHS.value
