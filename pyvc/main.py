"""pyvc command line: decide one property (DESIGN 4).

  python3-vt -m pyvc.main <PROPERTY> [--tier quick|thorough] [--repo DIR] [--jobs N] [--only FUNC] [--json]

Exit status: 0 held / 1 violation (VIOLATION line) / 3 checker error (CHECK-ERROR line, never a verdict).
"""
from __future__ import annotations

import argparse
import json
import multiprocessing as mp
import os
import re
import subprocess
import sys
import time
import traceback

HERE = os.path.dirname(os.path.abspath(__file__))
VERIF = os.path.dirname(HERE)
sys.path.insert(0, VERIF)
# the tier named on the command line decides the contract bounds (pyvc.config) and the second back ends (pyvc.path); both are
# read from the environment when those modules are imported, so it is fixed here, before anything else is imported
for _i, _a in enumerate(sys.argv):
    if _a == "--tier" and _i + 1 < len(sys.argv):
        os.environ["VERIF_TIER"] = sys.argv[_i + 1]
    elif _a.startswith("--tier="):
        os.environ["VERIF_TIER"] = _a.split("=", 1)[1]


def _load(repo):
    from pyvc.program import Program

    P = Program(repo)
    from contracts import REG

    return P, REG


_G = {}


def _strip(r):
    """Make a FunctionResult picklable: SMT-LIB2 text samples instead of z3 formulas."""
    import z3

    r.smt2 = getattr(r, "smt2", {})
    for name, rec in r.obligations.items():
        f = rec.pop("formula", None)
        if f is not None and len(r.smt2) < 2:
            s = z3.Solver()
            for x in f:
                s.add(x)
            r.smt2[name] = s.to_smt2()[:6000]
    return r


def _expand(target):
    """Phase 1: breadth-first exploration of one function until enough sub-trees are pending."""
    from pyvc.driver import FunctionResult, verify_function

    P, REG, opts = _G["P"], _G["REG"], _G["opts"]
    try:
        return _strip(verify_function(P, REG, REG.contracts[target], opts, expand_to=opts.get("fanout", 32)))
    except Exception as e:  # pragma: no cover
        r = FunctionResult(target)
        r.pending = []
        r.error = f"worker crash {type(e).__name__}: {e}\n{traceback.format_exc()[-2000:]}"
        return _strip(r)


def _subtree(job):
    """Phase 2: explore some sub-trees of one function."""
    from pyvc.driver import FunctionResult, verify_function

    target, prefixes = job
    P, REG, opts = _G["P"], _G["REG"], _G["opts"]
    try:
        r = verify_function(P, REG, REG.contracts[target], dict(opts, budget_paths=opts.get("job_paths", 60)), work=prefixes)
    except Exception as e:  # pragma: no cover
        r = FunctionResult(target)
        r.pending = []
        r.error = f"worker crash {type(e).__name__}: {e}\n{traceback.format_exc()[-2000:]}"
    return target, _strip(r)


def run_all(targets, jobs):
    """Every function is verified in its own forked process while slots are free (else in this process); within a
    function the exploration forks again at branch points (pyvc/forker.py). At most `jobs` processes are alive."""
    import os
    import pickle

    from pyvc import forker
    from pyvc.driver import FunctionResult, strip_formulas, verify_function

    P, REG, opts = _G["P"], _G["REG"], _G["opts"]
    forker.enable(jobs)
    results = {}
    kids = {}

    def one(t):
        try:
            r = verify_function(P, REG, REG.contracts[t], opts)
        except Exception as e:  # pragma: no cover
            r = FunctionResult(t)
            r.error = f"crash {type(e).__name__}: {e}\n{traceback.format_exc()[-2000:]}"
        strip_formulas(r)
        j = r.to_json()
        j["smt2"] = dict(list((getattr(r, "smt2", None) or {}).items())[:3])
        return j

    try:
        for t in targets:
            got = forker.SLOTS.acquire(block=False) if forker.ENABLED else False
            if got:
                pid = os.fork()
                if pid == 0:
                    forker.IS_CHILD = False  # a function-level worker: returns its JSON through a file, not child_exit
                    forker.CHILDREN = []
                    j = one(t)
                    path = os.path.join(forker.TMP, f"fn-{os.getpid()}.pkl")
                    with open(path + ".tmp", "wb") as f:
                        pickle.dump(j, f)
                    os.rename(path + ".tmp", path)
                    forker.SLOTS.release()
                    os._exit(0)
                kids[pid] = t
            else:
                results[t] = one(t)
        for pid, t in kids.items():
            os.waitpid(pid, 0)
            path = os.path.join(forker.TMP, f"fn-{pid}.pkl")
            if os.path.exists(path):
                with open(path, "rb") as f:
                    results[t] = pickle.load(f)
            else:
                r = FunctionResult(t)
                r.error = "the process verifying this function died without a result"
                results[t] = r.to_json()
    finally:
        forker.disable()
    return [results[t] for t in targets]


def known_findings():
    out = {"finding": [], "fixed": []}
    p = os.path.join(VERIF, "KNOWN_FINDINGS.txt")
    if os.path.exists(p):
        for line in open(p):
            line = line.strip()
            if line.startswith("finding:"):
                m = re.match(r"finding:\s+property=(\S+)\s+obligation=(\S+)\s+(.*)", line)
                if m:
                    out["finding"].append({"property": m.group(1), "obligation": m.group(2), "what": m.group(3)})
            elif line.startswith("fixed:"):
                out["fixed"].append(line)
    return out


def main(argv=None):
    ap = argparse.ArgumentParser()
    ap.add_argument("prop")
    ap.add_argument("--tier", default=os.environ.get("VERIF_TIER", "quick"))
    ap.add_argument("--repo", default=os.environ.get("PYVC_REPO", "/repo"))
    ap.add_argument("--jobs", type=int, default=int(os.environ.get("PYVC_JOBS", "16")))
    ap.add_argument("--only", default=None)
    ap.add_argument("--no-evidence", action="store_true")
    ap.add_argument("--evidence-dir", default=os.path.join(VERIF, "evidence"))
    ap.add_argument("--replay", default=None)
    args = ap.parse_args(argv)
    prop = args.prop
    seed = int(os.environ.get("VERIF_SEED", "0") or 0)
    t0 = time.time()
    if args.replay:
        from pyvc.replay_driver import rerun

        return rerun(args.replay, args.repo)
    try:
        P, REG = _load(args.repo)
    except Exception as e:
        print(f"CHECK-ERROR property={prop} cannot load the working tree or the contracts: {type(e).__name__}: {e}")
        traceback.print_exc()
        return 3
    thorough = args.tier == "thorough"
    opts = {
        "prove_timeout_ms": 60000 if thorough else 15000,
        "feas_timeout_ms": 5000 if thorough else 3000,
        "keep_formulas": True,
        "path_budget_s": int(os.environ.get("PYVC_PATH_BUDGET", "1800" if thorough else "600")),
        "function_budget_s": int(os.environ.get("PYVC_FUNCTION_BUDGET", "7200" if thorough else "1500")),
        "function_max_paths": int(os.environ.get("PYVC_FUNCTION_MAX_PATHS", "400000" if thorough else "60000")),
    }
    targets = [t for t, s in REG.contracts.items() if prop in s.props and not s.assumed]
    if args.only:
        targets = [t for t in targets if args.only in t]
    assumed = [t for t, s in REG.contracts.items() if s.assumed]
    if not targets:
        print(f"CHECK-ERROR property={prop} no function is under contract for this property")
        return 3
    _G.update(P=P, REG=REG, opts=opts)
    # G3: the executor in concrete mode must agree with CPython on the cross-check corpus for THIS tree before any verdict is
    # given (a disagreement is an engine fault: exit 3, never a pass and never a violation)
    args.g3 = None
    if not os.environ.get("PYVC_SKIP_G3") and not args.only:
        try:
            from selftest.run import cross_check

            args.g3 = cross_check(args.repo, jobs=min(args.jobs, 8), show=3)
        except Exception as e:  # the guard itself broke: say so, do not turn it into a verdict
            args.g3 = {"error": f"{type(e).__name__}: {e}"}
        g3 = args.g3
        if g3.get("error"):
            print(f"G3-SKIPPED property={prop} {g3['error'][:300]}")
        elif g3["disagree"]:
            for b in g3["examples"]:
                print("G3-DISAGREE", b["function"], json.dumps(b["args"])[:160], "cpython:", json.dumps(b["cpython"])[:160], "engine:", json.dumps(b["engine"])[:160])
            print(f"CHECK-ERROR property={prop} the symbolic executor and CPython disagree on {g3['disagree']} of {g3['cases']} cross-check inputs (engine fault, no verdict)")
            return 3
    results = run_all(targets, args.jobs)
    # Modular verification uses a callee's contract, not its body, at every call site: a proof of this property therefore rests on
    # the contracts of the functions it calls, which are claimed by OTHER properties' checks. They are verified here as well
    # (transitively), so that this check alone notices a change in a callee that breaks the contract the property was proved with.
    args.own_targets = len(targets)
    if not args.only and not os.environ.get("PYVC_NO_CLOSURE"):
        done = set(targets)
        depth = int(os.environ.get("PYVC_CLOSURE_DEPTH", "1000" if thorough else "1"))  # quick tier: the direct callees' contracts
        args.closure_depth = depth
        while depth > 0:
            depth -= 1
            used = set()
            for r_ in results:
                used |= set(r_.get("contract_calls") or [])
            more = [t for t, s in REG.contracts.items() if t not in done and not s.assumed and t.split("#")[0] in used]
            if not more:
                break
            done |= set(more)
            results += run_all(more, args.jobs)
            targets = targets + more
    # G7 (thorough tier): the call-site summaries admit what the real code does on the cross-check corpus
    args.g7 = None
    if thorough and not os.environ.get("PYVC_SKIP_G7") and not args.only:
        try:
            from selftest.summaries import conformance

            used = {t.split("#")[0] for t in targets}
            for r_ in results:
                used |= set(r_.get("contract_calls") or [])
            args.g7 = conformance(args.repo, jobs=args.jobs, show=3, functions=used)  # the summaries this property's proofs relied on
        except Exception as e:
            args.g7 = {"error": f"{type(e).__name__}: {e}"}
        g7 = args.g7
        if g7.get("error"):
            print(f"G7-SKIPPED property={prop} {g7['error'][:300]}")
        elif g7["miss"] or g7["engine_errors"]:
            for b in g7["examples"]:
                print("G7-MISS", b["function"], json.dumps(b["args"])[:160], "cpython:", json.dumps(b["cpython"])[:160], "summary:", json.dumps(b["summary"])[:160])
            print(f"CHECK-ERROR property={prop} a call-site summary excludes what the real code does on {g7['miss']} cross-check inputs (contract fault, no verdict)")
            return 3
    # bounded stand-in (C05 only), supplementing the proved step bound: interpreter line events of the parser are MEASURED on the
    # real code over a finite adversarial family (selftest/cost_standin.py); reported under bounded_standins, never as proved
    args.standins = []
    if prop == "C05" and not args.only and not os.environ.get("PYVC_SKIP_STANDIN"):
        env = dict(os.environ, PYTHONPATH=os.path.join(args.repo, "src"), SELFTEST_TESTS=os.path.join(args.repo, "tests"),
                   COST_MAX_SIZE="1000000" if thorough else "50000")
        env.setdefault("VERIF_SEED", "1")
        try:
            p = subprocess.run(["/venv/bin/python", os.path.join(VERIF, "selftest", "cost_standin.py")], env=env, capture_output=True, text=True, timeout=3600)
            args.standins.append({"function": "dpapi_ng._blob.DPAPINGBlob.unpack", "clause": "parser steps proportional to input size",
                                  **(json.loads(p.stdout) if p.returncode == 0 else {"error": p.stderr[-400:]})})
        except Exception as e:
            args.standins.append({"function": "dpapi_ng._blob.DPAPINGBlob.unpack", "clause": "parser steps proportional to input size", "error": f"{type(e).__name__}: {e}"})

    # bounded stand-ins beyond the precondition bounds of the proved contracts (DESIGN 10.6): the real functions against an
    # oracle written from the standard, on a finite family outside the bounds; reported under bounded_standins, never as proved
    if prop in ("C07", "C08") and not args.only and not os.environ.get("PYVC_SKIP_STANDIN"):
        env = dict(os.environ, PYTHONPATH=os.path.join(args.repo, "src"), VERIF_TIER=args.tier, PYTHONDONTWRITEBYTECODE="1")
        env.setdefault("VERIF_SEED", "1")
        try:
            p = subprocess.run(["/venv/bin/python", os.path.join(VERIF, "selftest", "beyond_bounds.py"), prop], env=env, capture_output=True, text=True, timeout=3600)
            if p.returncode == 0:
                args.standins.extend(json.loads(p.stdout))
            else:
                args.standins.append({"function": f"beyond-bounds family of {prop}", "clause": "beyond the proved bounds", "error": p.stderr[-400:]})
        except Exception as e:
            args.standins.append({"function": f"beyond-bounds family of {prop}", "clause": "beyond the proved bounds", "error": f"{type(e).__name__}: {e}"})

    from pyvc.report import decide

    return decide(prop, args, P, REG, targets, assumed, results, seed, t0, known_findings())


if __name__ == "__main__":
    sys.exit(main())
