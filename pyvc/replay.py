"""Runs under /venv/bin/python with PYTHONPATH=<tree>/src: executes the REAL function on concrete inputs.

stdin: JSON {"function": "dpapi_ng._gkdi.compute_l2_key", "args": {...}, "stubs": {...}, "budget": 200000,
             "oracle": "<python source defining oracle(inputs, outcome, env)>" | null}
stdout: JSON {"kind": "return"|"raise"|"budget"|"harness-error", "type":..., "repr":..., "oracle": <reason or null>}
"""
from __future__ import annotations

import dataclasses
import importlib
import json
import sys
import uuid


class Budget(BaseException):
    pass


def build(v):
    if isinstance(v, dict):
        t = v.get("__t__")
        if t == "bytes":
            return bytes.fromhex(v["hex"])
        if t == "bytearray":
            return bytearray(bytes.fromhex(v["hex"]))
        if t == "memoryview":
            return memoryview(bytes.fromhex(v["hex"]))
        if t == "uuid":
            return uuid.UUID(bytes_le=bytes.fromhex(v["hex"]))
        if t == "hash":
            from cryptography.hazmat.primitives import hashes

            return getattr(hashes, v["name"])()
        if t == "enum":
            mod, q = v["cls"].split(":")
            cls = getattr(importlib.import_module(mod), q)
            try:
                return cls(v["value"])
            except ValueError:
                return v["value"]
        if t == "obj":
            mod, q = v["cls"].split(":")
            cls = importlib.import_module(mod)
            for part in q.split("."):
                cls = getattr(cls, part)
            fields = {k: build(x) for k, x in v["fields"].items()}
            if dataclasses.is_dataclass(cls):
                init = {f.name for f in dataclasses.fields(cls) if f.init}
                obj = cls(**{k: x for k, x in fields.items() if k in init})
                for k, x in fields.items():
                    if k not in init:
                        try:
                            object.__setattr__(obj, k, x)
                        except Exception:
                            pass
                return obj
            if hasattr(cls, "_fields"):
                return cls(**fields)
            try:
                obj = cls()  # run the real constructor when it needs no arguments, so that every attribute it creates exists
            except TypeError:
                obj = cls.__new__(cls)
            for k, x in fields.items():
                setattr(obj, k, x)
            return obj
        if t == "class":
            mod, q = v["ref"].split(":")
            cls = importlib.import_module(mod)
            for part in q.split("."):
                cls = getattr(cls, part)
            return cls
        if t == "list":
            return [build(x) for x in v["items"]]
        if t == "tuple":
            return tuple(build(x) for x in v["items"])
        if t == "none":
            return None
        return {k: build(x) for k, x in v.items()}
    if isinstance(v, list):
        return [build(x) for x in v]
    return v


def describe(v, depth=0):
    if depth > 6:
        return "..."
    if isinstance(v, (bytes, bytearray, memoryview)):
        b = bytes(v)
        return {"__t__": "bytes", "hex": b[:4096].hex(), "len": len(b)}
    if isinstance(v, uuid.UUID):
        return {"__t__": "uuid", "hex": v.bytes_le.hex()}
    if dataclasses.is_dataclass(v) and not isinstance(v, type):
        return {"__t__": "obj", "cls": f"{type(v).__module__}:{type(v).__qualname__}", "fields": {k: describe(x, depth + 1) for k, x in vars(v).items()}}
    if isinstance(v, tuple) and hasattr(v, "_fields"):
        return {"__t__": "obj", "cls": f"{type(v).__module__}:{type(v).__qualname__}", "fields": {k: describe(getattr(v, k), depth + 1) for k in v._fields}}
    if isinstance(v, (list, tuple)):
        return [describe(x, depth + 1) for x in v[:64]]
    if isinstance(v, (int, str, bool)) or v is None:
        return v
    import enum

    if isinstance(v, enum.Enum):
        return {"__t__": "enum", "cls": f"{type(v).__module__}:{type(v).__qualname__}", "value": v.value}
    return repr(v)[:200]


def main():
    req = json.load(sys.stdin)
    out = {}
    try:
        parts = req["function"].split(".")
        mod = None
        for i in range(len(parts), 0, -1):
            try:
                mod = importlib.import_module(".".join(parts[:i]))
                rest = parts[i:]
                break
            except ImportError:
                continue
        fn = mod
        owner = None
        for p in rest:
            owner = fn
            fn = getattr(fn, p)
        args = {k: build(v) for k, v in req.get("args", {}).items()}
        import inspect as _inspect

        if _inspect.ismethod(fn) and isinstance(fn.__self__, type):
            args.pop("cls", None)  # a classmethod fetched from its class is already bound
        env = {}
        for name, val in (req.get("stubs") or {}).items():
            m, attr = name.rsplit(".", 1)
            target = importlib.import_module(m)
            if isinstance(val, dict) and val.get("__t__") == "const_fn":
                cv = build(val["value"])
                setattr(target, attr, (lambda cv=cv: (lambda *a, **k: cv))())
            env[name] = val
        setup = req.get("setup")
        if setup:
            g = {"args": args, "env": env, "build": build}
            exec(setup, g)
            args = g["args"]
            fn = g.get("fn", fn)
    except BaseException as e:  # noqa
        json.dump({"kind": "harness-error", "type": type(e).__name__, "repr": str(e)[:300]}, sys.stdout)
        return
    count = [0]
    budget = req.get("budget", 200000)

    def tracer(frame, event, arg):
        if event == "line":
            count[0] += 1
            if count[0] > budget:
                raise Budget()
        return tracer

    import asyncio
    import inspect

    try:
        sys.settrace(tracer)
        try:
            r = fn(**args)
            if inspect.iscoroutine(r):
                r = asyncio.new_event_loop().run_until_complete(r)
        finally:
            sys.settrace(None)
        out = {"kind": "return", "value": describe(r), "steps": count[0]}
    except Budget:
        out = {"kind": "budget", "steps": count[0]}
    except BaseException as e:  # noqa
        out = {"kind": "raise", "type": type(e).__name__, "mro": [c.__name__ for c in type(e).__mro__], "repr": str(e)[:300], "steps": count[0]}
        if isinstance(e, TypeError) and count[0] == 0:
            # no line of the function ran: the call itself could not be made (argument binding) - a harness problem, not an observation
            out = {"kind": "harness-error", "type": "TypeError", "repr": str(e)[:300]}
    oracle = req.get("oracle")
    if oracle:
        try:
            g = {"build": build, "env": env}
            exec(oracle, g)
            out["oracle"] = g["oracle"](args, out, env)
        except BaseException as e:  # noqa
            out["oracle_error"] = f"{type(e).__name__}: {e}"
    json.dump(out, sys.stdout, default=str)


if __name__ == "__main__":
    main()
