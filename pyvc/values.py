"""Value classes of the symbolic interpreter."""
from __future__ import annotations

import z3

from . import rope as R
from .smt import Str, fresh_name


class PyRaise(Exception):
    """A Python exception raised by the interpreted program."""

    def __init__(self, exc):
        super().__init__(exc.type_name)
        self.exc = exc


class PathEnd(Exception):
    """The current path ends here (infeasible, or cut at a loop head after the inductive step)."""


class OutOfReach(Exception):
    """The function uses a construct outside the supported subset (DESIGN 2.9)."""


class PartialReach(OutOfReach):
    """Out of reach on THIS path only (e.g. an un-annotated loop of symbolic trip count, unrolled for its first iterations): the
    function is still reported as out of reach - nothing is proved - but the other paths are explored for refutations, which
    are sound whatever was left unexplored."""


class FrameEscape(OutOfReach):
    """The code reads or writes state that the contract's frame does not contain: an attribute that is not a declared field of the
    object, a memoising decorator, a module-level object. Reported as the frame obligation of the function (state outside the
    frame makes the result depend on the call history), not as an unmodelled construct."""


class EngineError(Exception):
    pass


class PathBudget(BaseException):
    """The exploration of one path exceeded its wall-clock budget (raised from a SIGALRM handler; BaseException so that no
    handler inside the engine swallows it)."""


PATH_BUDGET_S = [300.0]
# absolute time (time.time()) after which the exploration of the function currently being verified is abandoned; set when the
# exploration starts and inherited by every process forked for it
FUNCTION_DEADLINE = [None]


def arm_path_timer():
    import signal

    def _alarm(signum, frame):
        import traceback

        where = " <- ".join(f"{f.name}:{f.lineno}" for f in reversed(traceback.extract_stack(frame)[-8:]))
        import os, sys

        if os.environ.get("PYVC_TRACE_SLOW"):
            print(f"[alarm {os.getpid()}] {where}", file=sys.stderr, flush=True)
        raise PathBudget(where)

    signal.signal(signal.SIGALRM, _alarm)
    signal.setitimer(signal.ITIMER_REAL, PATH_BUDGET_S[0])


def disarm_path_timer():
    import signal

    signal.setitimer(signal.ITIMER_REAL, 0)


class InlineInstead(Exception):
    """Raised by a contract in call mode: this call site should execute the callee's body instead."""


class ReturnEx(Exception):
    def __init__(self, value):
        self.value = value


class BreakEx(Exception):
    pass


class ContinueEx(Exception):
    pass


class SExc:
    """An exception object. type_name is a dotted or builtin name; mro lists ancestor names."""

    def __init__(self, type_name, mro, args=()):
        self.type_name = type_name
        self.mro = list(mro)
        self.args = args

    def isinstance_of(self, name):
        return name in self.mro

    def __repr__(self):
        return f"<exc {self.type_name}>"


class SBytes:
    """bytes / bytearray / memoryview-of-immutable value. bytearray is mutable: rope is reassigned."""

    def __init__(self, rope: R.Rope, kind="bytes"):
        self.rope = rope
        self.kind = kind

    def __repr__(self):
        return f"<{self.kind} {self.rope!r}>"


class SView:
    """memoryview over a mutable bytearray: reads and writes go to base.rope[start:stop]."""

    kind = "memoryview"

    def __init__(self, base: SBytes, start, stop):
        self.base = base
        self.start = start
        self.stop = stop

    def __repr__(self):
        return f"<view of bytearray [{self.start}:{self.stop}]>"


class SStr:
    """Symbolic text string (term of sort Str)."""

    def __init__(self, term):
        self.term = term

    def __repr__(self):
        return f"<str {self.term}>"


STRCAT = z3.Function("STRCAT", Str, Str, Str)


class SObj:
    """Instance of a repo class (mutable or frozen dataclass, NamedTuple, plain class)."""

    def __init__(self, cls, fields=None):
        self.cls = cls
        self.fields = dict(fields or {})
        self.ghost = {}

    def __repr__(self):
        return f"<{self.cls.name} {list(self.fields)}>"


class SEnum:
    def __init__(self, cls, value, name=None, int_value=None):
        self.cls = cls
        self.value = value  # .value
        self.name = name
        self.int_value = int_value  # int(member) when it differs from .value (pseudo members of a lossy _missing_)

    def __repr__(self):
        return f"<{self.cls.name}.{self.name or self.value}>"


class Unspecified:
    """A value a summary says nothing about (e.g. a field of a decoded PDU that no caller reads). Any operation on it other than
    passing it along leaves the verifier's reach; it is never a claim that the real value is None."""

    def __repr__(self):
        return "<unspecified>"


UNSPEC = Unspecified()


class SUUID:
    def __init__(self, rope: R.Rope):
        self.rope = rope  # bytes_le, 16 bytes

    def __repr__(self):
        return f"<uuid {self.rope!r}>"


class SRef:
    """Opaque external object identified by a term of sort Ref, with a free-form kind."""

    def __init__(self, term, kind="object", attrs=None):
        self.term = term
        self.kind = kind
        self.attrs = attrs or {}

    def __repr__(self):
        return f"<{self.kind} {self.term}>"


class SList:
    """List of symbolic length: length term and an element function index -> value. Mutable in place (append)."""

    def __init__(self, length, elem):
        self.length = length
        self.elem = elem

    def pyvc_method(self, I, name, args, kw):
        from .builtins import slist_append

        if name == "append":
            new = slist_append(I, SList(self.length, self.elem), args[0])
            self.length, self.elem = new.length, new.elem
            return None
        if name == "sort" and not args and set(kw) <= {"key", "reverse"}:
            from .builtins import b_sorted

            new = b_sorted(I, [SList(self.length, self.elem)], kw)
            self.length, self.elem = new.length, new.elem
            return None
        raise OutOfReach(f"list.{name} on a list of symbolic length")


class ClassRef:
    def __init__(self, cls):
        self.cls = cls

    def __repr__(self):
        return f"<classref {self.cls.ref}>"


class FuncRef:
    def __init__(self, fi, closure_env=None):
        self.fi = fi
        self.closure_env = closure_env

    def __repr__(self):
        return f"<funcref {self.fi.dotted}>"


class BoundMethod:
    def __init__(self, fi, self_val):
        self.fi = fi
        self.self_val = self_val


class Lambda:
    def __init__(self, node, env, module):
        self.node = node
        self.env = env
        self.module = module


class Builtin:
    def __init__(self, name, bound=None):
        self.name = name
        self.bound = bound

    def __repr__(self):
        return f"<builtin {self.name}>"


class ModuleRef:
    def __init__(self, name):
        self.name = name

    def __repr__(self):
        return f"<module {self.name}>"


class Coro:
    """Result of calling an async function (already executed); await unwraps it."""

    def __init__(self, value):
        self.value = value


class SymMap:
    """A (nested) dict with ARBITRARY initial content subject to an invariant: `initial(I, key_tuple)` yields the value
    stored under a full key before the function ran (None = absent; it may fork). Reads are memoised per key (a second
    read of the same key sees the same value), writes are recorded. Only the dict operations the code base uses exist:
    setdefault(k, {}) on inner levels, get / setdefault / [] / []= on the last level."""

    def __init__(self, depth, initial, prefix=(), root=None):
        self.depth = depth
        self.initial = initial
        self.prefix = prefix
        self.root = root or self
        if root is None:
            self.known = []  # [(key_tuple, value)] current content for keys touched so far
            self.before = []  # [(key_tuple, value)] content at entry for keys touched so far
            self.written = []  # key tuples written

    def _lookup(self, I, key):
        r = self.root
        for i, (k, v) in enumerate(r.known):
            if I.truthy(I.eq(k, key)):
                return i
        v = r.initial(I, key)
        r.known.append((key, v))
        r.before.append((key, v))
        return len(r.known) - 1

    def current(self, I, key):
        return self.root.known[self._lookup(I, key)][1]

    def pyvc_method(self, I, name, args, kw):
        last = len(self.prefix) + 1 == self.depth
        if name == "setdefault":
            if not last:
                d = args[1] if len(args) > 1 else None
                from .interp import DictVal

                if not (isinstance(d, DictVal) and not d.items):
                    raise OutOfReach("setdefault on an inner level with a non-empty default")
                return SymMap(self.depth, self.initial, self.prefix + (args[0],), self.root)
            key = self.prefix + (args[0],)
            i = self._lookup(I, key)
            cur = self.root.known[i][1]
            if cur is None:
                self.root.known[i] = (key, args[1] if len(args) > 1 else None)
                self.root.written.append(key)
                return self.root.known[i][1]
            return cur
        if name == "get":
            if not last:
                raise OutOfReach("get on an inner level of a nested map")
            cur = self.current(I, self.prefix + (args[0],))
            return cur if cur is not None else (args[1] if len(args) > 1 else None)
        raise OutOfReach(f"dict.{name} on a symbolic map")

    def pyvc_setitem(self, I, key, v):
        if len(self.prefix) + 1 != self.depth:
            raise OutOfReach("item assignment on an inner level of a nested map")
        k = self.prefix + (key,)
        i = self._lookup(I, k)
        self.root.known[i] = (k, v)
        self.root.written.append(k)

    def pyvc_getitem(self, I, key):
        if len(self.prefix) + 1 != self.depth:
            return SymMap(self.depth, self.initial, self.prefix + (key,), self.root)
        cur = self.current(I, self.prefix + (key,))
        if cur is None:
            I.raise_("KeyError")
        return cur
