"""Value classes of the symbolic interpreter."""
from __future__ import annotations

import z3

from . import rope as R
from .smt import Str, fresh_name


class PyRaise(Exception):
    """A Python exception raised by the interpreted program."""

    def __init__(self, exc):
        super().__init__(exc.type_name)
        self.exc = exc


class PathEnd(Exception):
    """The current path ends here (infeasible, or cut at a loop head after the inductive step)."""


class OutOfReach(Exception):
    """The function uses a construct outside the supported subset (DESIGN 2.9)."""


class EngineError(Exception):
    pass


class InlineInstead(Exception):
    """Raised by a contract in call mode: this call site should execute the callee's body instead."""


class ReturnEx(Exception):
    def __init__(self, value):
        self.value = value


class BreakEx(Exception):
    pass


class ContinueEx(Exception):
    pass


class SExc:
    """An exception object. type_name is a dotted or builtin name; mro lists ancestor names."""

    def __init__(self, type_name, mro, args=()):
        self.type_name = type_name
        self.mro = list(mro)
        self.args = args

    def isinstance_of(self, name):
        return name in self.mro

    def __repr__(self):
        return f"<exc {self.type_name}>"


class SBytes:
    """bytes / bytearray / memoryview-of-immutable value. bytearray is mutable: rope is reassigned."""

    def __init__(self, rope: R.Rope, kind="bytes"):
        self.rope = rope
        self.kind = kind

    def __repr__(self):
        return f"<{self.kind} {self.rope!r}>"


class SView:
    """memoryview over a mutable bytearray: reads and writes go to base.rope[start:stop]."""

    kind = "memoryview"

    def __init__(self, base: SBytes, start, stop):
        self.base = base
        self.start = start
        self.stop = stop

    def __repr__(self):
        return f"<view of bytearray [{self.start}:{self.stop}]>"


class SStr:
    """Symbolic text string (term of sort Str)."""

    def __init__(self, term):
        self.term = term

    def __repr__(self):
        return f"<str {self.term}>"


STRCAT = z3.Function("STRCAT", Str, Str, Str)


class SObj:
    """Instance of a repo class (mutable or frozen dataclass, NamedTuple, plain class)."""

    def __init__(self, cls, fields=None):
        self.cls = cls
        self.fields = dict(fields or {})
        self.ghost = {}

    def __repr__(self):
        return f"<{self.cls.name} {list(self.fields)}>"


class SEnum:
    def __init__(self, cls, value, name=None, int_value=None):
        self.cls = cls
        self.value = value  # .value
        self.name = name
        self.int_value = int_value  # int(member) when it differs from .value (pseudo members of a lossy _missing_)

    def __repr__(self):
        return f"<{self.cls.name}.{self.name or self.value}>"


class SUUID:
    def __init__(self, rope: R.Rope):
        self.rope = rope  # bytes_le, 16 bytes

    def __repr__(self):
        return f"<uuid {self.rope!r}>"


class SRef:
    """Opaque external object identified by a term of sort Ref, with a free-form kind."""

    def __init__(self, term, kind="object", attrs=None):
        self.term = term
        self.kind = kind
        self.attrs = attrs or {}

    def __repr__(self):
        return f"<{self.kind} {self.term}>"


class SList:
    """List of symbolic length: length term and an element function index -> value. Mutable in place (append)."""

    def __init__(self, length, elem):
        self.length = length
        self.elem = elem

    def pyvc_method(self, I, name, args, kw):
        from .builtins import slist_append

        if name == "append":
            new = slist_append(I, SList(self.length, self.elem), args[0])
            self.length, self.elem = new.length, new.elem
            return None
        raise OutOfReach(f"list.{name} on a list of symbolic length")


class ClassRef:
    def __init__(self, cls):
        self.cls = cls

    def __repr__(self):
        return f"<classref {self.cls.ref}>"


class FuncRef:
    def __init__(self, fi, closure_env=None):
        self.fi = fi
        self.closure_env = closure_env

    def __repr__(self):
        return f"<funcref {self.fi.dotted}>"


class BoundMethod:
    def __init__(self, fi, self_val):
        self.fi = fi
        self.self_val = self_val


class Lambda:
    def __init__(self, node, env, module):
        self.node = node
        self.env = env
        self.module = module


class Builtin:
    def __init__(self, name, bound=None):
        self.name = name
        self.bound = bound

    def __repr__(self):
        return f"<builtin {self.name}>"


class ModuleRef:
    def __init__(self, name):
        self.name = name

    def __repr__(self):
        return f"<module {self.name}>"


class Coro:
    """Result of calling an async function (already executed); await unwraps it."""

    def __init__(self, value):
        self.value = value
