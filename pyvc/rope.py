"""Ropes: byte strings as concatenations of typed segments with symbolic lengths (DESIGN 2.3).

Segment kinds
  Lit(data)                 concrete bytes
  IntSeg(x, n, order)       the n-byte (concrete n >= 0) encoding of (x mod 256**n); order 'little' | 'big'
  Atom(term, lo, hi)        bytes term[lo:hi] of an opaque byte string `term` (sort Bytes), 0 <= lo <= hi <= blen(term)
  Zeros(n)                  n zero bytes, n an Int term or int

The normaliser resolves slices structurally and asks the solver only linear integer questions
through the `ctx` object (entails / branch / assume). Anything it cannot resolve structurally is
turned into an opaque SUB/CAT term (sound, loses structure) - never guessed.
"""
from __future__ import annotations

import z3

from .smt import Bytes, Z, blen, byte_at, bytes_lit, conc_int, simp

INTB = z3.Function("INTB", z3.IntSort(), z3.IntSort(), z3.IntSort(), Bytes)  # x, n, order(0 little,1 big)
ZEROS = z3.Function("ZEROS", z3.IntSort(), Bytes)
SUB = z3.Function("SUB", Bytes, z3.IntSort(), z3.IntSort(), Bytes)
CAT = z3.Function("CAT", Bytes, Bytes, Bytes)
EMPTY = z3.Const("EMPTY_BYTES", Bytes)
VAL_LE = z3.Function("VAL_LE", Bytes, z3.IntSort())
VAL_BE = z3.Function("VAL_BE", Bytes, z3.IntSort())

MAX_EXPAND = 24  # widest fixed-width field expanded byte by byte


def _add(a, b):
    if isinstance(a, int) and isinstance(b, int):
        return a + b
    return simp(Z(a) + Z(b))


def _sub(a, b):
    if isinstance(a, int) and isinstance(b, int):
        return a - b
    r = simp(Z(a) - Z(b))
    c = conc_int(r)
    return c if c is not None else r


def _norm_int(v):
    c = conc_int(v)
    return c if c is not None else simp(v)


class Lit:
    __slots__ = ("data",)

    def __init__(self, data: bytes):
        self.data = bytes(data)

    @property
    def length(self):
        return len(self.data)

    def __repr__(self):
        return f"Lit({self.data.hex()})"


class IntSeg:
    """n-byte encoding of (x mod 256**n). `reduced` records that 0 <= x < 256**n is known, so no reduction is needed."""

    __slots__ = ("x", "n", "order", "reduced", "digs")

    def __init__(self, x, n: int, order: str, reduced=False, digs=None):
        assert isinstance(n, int) and n >= 0
        assert order in ("little", "big")
        self.x = _norm_int(x)
        self.n = n
        self.order = order
        self.reduced = reduced
        self.digs = digs  # base-256 digits, least significant first (shared with the pieces this segment is cut into)
        if isinstance(self.x, int):
            self.x %= 256**n
            self.reduced = True

    @property
    def length(self):
        return self.n

    def value(self, ctx=None):
        """x mod 256**n as int/term. With a path context the reduction is a fresh variable with a linear definition
        (ctx.mod), or no reduction at all when the range of x is entailed."""
        if self.reduced:
            return self.x
        if ctx is None:
            return self.x % (256**self.n)
        K = 256**self.n
        if ctx.entails(z3.And(Z(self.x) >= 0, Z(self.x) < K)):
            self.reduced = True
            return self.x
        self.x = _norm_int(ctx.mod(self.x, K))
        self.reduced = True
        return self.x

    def digits(self, ctx):
        if self.digs is None:
            self.digs = ctx.digits(self.value(ctx), self.n)
        return self.digs

    def __repr__(self):
        return f"Int{'LE' if self.order == 'little' else 'BE'}({self.x},{self.n})"


class Atom:
    """term[lo:hi]; `full` records that this is the whole of `term` (lo = 0, hi = blen(term)), also when hi has been
    replaced by a constant the path condition forces."""

    __slots__ = ("term", "lo", "hi", "full")

    def __init__(self, term, lo, hi, full=False):
        self.term = term
        self.lo = _norm_int(lo)
        self.hi = _norm_int(hi)
        self.full = full or (isinstance(self.lo, int) and self.lo == 0 and not isinstance(self.hi, int) and self.hi.eq(blen(term)))

    @property
    def length(self):
        return _sub(self.hi, self.lo)

    def is_full(self):
        return self.full

    def __repr__(self):
        return f"Atom({self.term},{self.lo},{self.hi})"


class Zeros:
    __slots__ = ("n",)

    def __init__(self, n):
        self.n = _norm_int(n)

    @property
    def length(self):
        return self.n

    def __repr__(self):
        return f"Zeros({self.n})"


def full_atom(term, length=None):
    """The whole of `term`; `length` may give its (asserted elsewhere) constant length."""
    if isinstance(length, int):
        return Atom(term, 0, length, True)
    return Atom(term, 0, blen(term), True)


class Rope:
    """Immutable sequence of segments. kind: 'bytes' | 'bytearray' | 'memoryview' is carried by the wrapper
    values in the interpreter, not here."""

    __slots__ = ("segs", "_len")

    def __init__(self, segs=()):
        self.segs = tuple(_normalise(segs))
        self._len = None

    @staticmethod
    def lit(b: bytes):
        return Rope([Lit(b)]) if b else Rope()

    def length(self):
        if self._len is None:
            tot = 0
            for s in self.segs:
                tot = _add(tot, s.length)
            self._len = _norm_int(tot) if not isinstance(tot, int) else tot
        return self._len

    def concrete(self):
        """bytes if every segment is a literal, else None."""
        if not self.segs:
            return b""
        if len(self.segs) == 1 and isinstance(self.segs[0], Lit):
            return self.segs[0].data
        return None

    def __add__(self, other):
        return Rope(self.segs + other.segs)

    def __repr__(self):
        return "Rope[" + " ++ ".join(map(repr, self.segs)) + "]"


def _normalise(segs):
    out = []
    for s in segs:
        if isinstance(s, Rope):
            parts = s.segs
        else:
            parts = (s,)
        for p in parts:
            # concretise
            if isinstance(p, IntSeg) and isinstance(p.x, int):
                p = Lit((p.x % 256**p.n).to_bytes(p.n, p.order))
            elif isinstance(p, Zeros) and isinstance(p.n, int):
                if p.n < 0:
                    p = Lit(b"")
                elif p.n <= 65536:
                    p = Lit(b"\x00" * p.n)
            ln = p.length
            if isinstance(ln, int) and ln == 0:
                continue
            if out:
                q = out[-1]
                if isinstance(q, Lit) and isinstance(p, Lit):
                    out[-1] = Lit(q.data + p.data)
                    continue
                if isinstance(q, Atom) and isinstance(p, Atom) and q.term.eq(p.term) and _same(q.hi, p.lo):
                    out[-1] = Atom(q.term, q.lo, p.hi)
                    continue
                if isinstance(q, Zeros) and isinstance(p, Zeros):
                    out[-1] = Zeros(_add(q.n, p.n))
                    continue
            out.append(p)
    return out


def _same(a, b):
    if isinstance(a, int) and isinstance(b, int):
        return a == b
    d = conc_int(_sub(a, b))
    return d == 0


# ------------------------------------------------------------------------------------------------
# decisions


def _decide(ctx, cond):
    """True / False when the path condition decides cond, else None."""
    c = simp(Z(cond))
    if z3.is_true(c):
        return True
    if z3.is_false(c):
        return False
    if ctx.entails(c):
        return True
    if ctx.entails(z3.Not(c)):
        return False
    return None


def _decide_or_branch(ctx, cond):
    d = _decide(ctx, cond)
    if d is None:
        return ctx.branch(simp(Z(cond)))
    return d


def resolve_int(ctx, t):
    """If the path condition forces the integer term t to one value, return that int, else t."""
    c = conc_int(t)
    if c is not None:
        return c
    v = ctx.value_of(t)
    return t if v is None else v


# ------------------------------------------------------------------------------------------------
# splitting


def _to_atom(ctx, seg):
    """Re-express a segment as an Atom over an opaque term (loses structure, keeps identity)."""
    if isinstance(seg, Atom):
        return seg
    if isinstance(seg, Lit):
        t = bytes_lit(seg.data)
        return Atom(t, 0, len(seg.data))
    if isinstance(seg, IntSeg):
        t = INTB(Z(seg.value(ctx)), seg.n, 0 if seg.order == "little" else 1)
        ctx.assume(blen(t) == seg.n)
        return Atom(t, 0, seg.n)
    if isinstance(seg, Zeros):
        t = ZEROS(Z(seg.n))
        ctx.assume(blen(t) == Z(seg.n))
        return Atom(t, 0, seg.n)
    raise TypeError(seg)


def _split_seg(ctx, seg, d):
    """Split seg at offset d (0 <= d <= length assumed by the caller). Returns (left, right) segment lists."""
    dc = conc_int(d)
    if dc is not None:
        d = dc
        if d == 0:
            return [], [seg]
        if isinstance(seg.length, int) and d == seg.length:
            return [seg], []
    if isinstance(seg, Lit):
        if isinstance(d, int):
            return [Lit(seg.data[:d])], [Lit(seg.data[d:])]
        seg = _to_atom(ctx, seg)
    if isinstance(seg, IntSeg):
        if isinstance(d, int):
            n = seg.n
            ds = seg.digits(ctx)

            def piece(sub, order):
                val = 0
                for j, dg in enumerate(sub):
                    val = _add(val, dg * (256**j) if isinstance(dg, int) else simp(Z(dg) * (256**j)))
                return IntSeg(val, len(sub), order, True, list(sub))

            if seg.order == "little":
                return [piece(ds[:d], "little")], [piece(ds[d:], "little")]
            return [piece(ds[n - d :], "big")], [piece(ds[: n - d], "big")]
        seg = _to_atom(ctx, seg)
    if isinstance(seg, Zeros):
        return [Zeros(d)], [Zeros(_sub(seg.n, d))]
    if isinstance(seg, Atom):
        mid = _add(seg.lo, d)
        return [Atom(seg.term, seg.lo, mid)], [Atom(seg.term, mid, seg.hi)]
    raise TypeError(seg)


def _div(v, k):
    if isinstance(v, int):
        return v // k
    return simp(v / k)  # z3 Int division: floor for positive divisor


def split_at(ctx, rope: Rope, p):
    """Split rope at byte offset p, 0 <= p <= len(rope) (caller guarantees). Returns (Rope, Rope)."""
    p = _norm_int(p)
    if isinstance(p, int) and p == 0:
        return Rope(), rope
    off = 0
    segs = rope.segs
    for i, s in enumerate(segs):
        end = _add(off, s.length)
        # is p >= end ?
        ge = _decide(ctx, Z(p) >= Z(end))
        if ge is None:
            ge = ctx.branch(simp(Z(p) >= Z(end)))
        if ge:
            if _same(p, end) or (not isinstance(_sub(p, end), int) and ctx.entails(Z(p) == Z(end))):
                return Rope(segs[: i + 1]), Rope(segs[i + 1 :])
            off = end
            continue
        # p < end: cut inside (or at the start of) this segment
        d = resolve_int(ctx, _sub(p, off))
        left, right = _split_seg(ctx, s, d)
        return Rope(list(segs[:i]) + left), Rope(right + list(segs[i + 1 :]))
    return rope, Rope()


def slice_norm(ctx, rope: Rope, lo, hi):
    """rope[lo:hi] for already clamped 0 <= lo <= hi <= len."""
    _, rest = split_at(ctx, rope, lo)
    mid, _ = split_at(ctx, rest, _sub(hi, lo))
    return mid


def clamp_index(ctx, idx, n, default):
    """Python slice bound semantics: None -> default; negative -> +n; clamp to [0, n]."""
    if idx is None:
        return default
    idx = _norm_int(idx)
    n_ = _norm_int(n)
    if isinstance(idx, int) and isinstance(n_, int):
        if idx < 0:
            idx += n_
        return max(0, min(idx, n_))
    if _decide_or_branch(ctx, Z(idx) < 0):
        idx = _add(idx, n_)
        if _decide_or_branch(ctx, Z(idx) < 0):
            return 0
        return idx
    if _decide_or_branch(ctx, Z(idx) > Z(n_)):
        return n_
    return idx


def py_slice(ctx, rope: Rope, a, b):
    n = rope.length()
    lo = clamp_index(ctx, a, n, 0)
    hi = clamp_index(ctx, b, n, n)
    if isinstance(lo, int) and isinstance(hi, int):
        if hi < lo:
            hi = lo
    elif _decide_or_branch(ctx, Z(hi) < Z(lo)):
        hi = lo
    return slice_norm(ctx, rope, lo, hi)


# ------------------------------------------------------------------------------------------------
# opaque terms


def to_term(ctx, rope: Rope):
    """A Bytes term denoting the rope (for use as UF argument / opaque equality)."""
    segs = rope.segs
    if not segs:
        ctx.assume(blen(EMPTY) == 0)
        return EMPTY
    terms = []
    for s in segs:
        if isinstance(s, Atom):
            if s.is_full():
                terms.append(s.term)
            else:
                t = SUB(s.term, Z(s.lo), Z(s.hi))
                ctx.assume(blen(t) == Z(s.length))
                terms.append(t)
        else:
            terms.append(_to_atom(ctx, s).term)
    t = terms[-1]
    for u in reversed(terms[:-1]):
        c = CAT(u, t)
        ctx.assume(blen(c) == blen(u) + blen(t))
        t = c
    return t


# ------------------------------------------------------------------------------------------------
# integers


def _seg_bytes(ctx, seg):
    """List of per-byte int/terms for a segment of small concrete length, else None."""
    ln = seg.length
    if not isinstance(ln, int) or ln > MAX_EXPAND:
        return None
    if isinstance(seg, Lit):
        return list(seg.data)
    if isinstance(seg, Zeros):
        return [0] * ln
    if isinstance(seg, IntSeg):
        le = list(seg.digits(ctx))
        return le if seg.order == "little" else list(reversed(le))
    if isinstance(seg, Atom):
        out = []
        for j in range(ln):
            b = byte_at(seg.term, Z(_add(seg.lo, j)))
            ctx.assume(z3.And(b >= 0, b <= 255))
            out.append(b)
        return out
    return None


POW256 = z3.Function("POW256", z3.IntSort(), z3.IntSort())


def to_int(ctx, rope: Rope, order: str, signed: bool = False):
    """int.from_bytes(rope, order, signed=signed)."""
    n = rope.length()
    segs = rope.segs
    if not segs:
        return 0
    val = None
    if len(segs) == 1 and isinstance(segs[0], IntSeg) and segs[0].order == order:
        val = segs[0].value(ctx)
    elif isinstance(n, int):
        # positional sum; segments in matching order contribute as a whole, others byte by byte
        total = 0
        ok = True
        # offsets from the least significant end
        seq = segs if order == "little" else tuple(reversed(segs))
        off = 0
        for s in seq:
            ln = s.length
            if isinstance(s, IntSeg) and s.order == order:
                part = s.value(ctx)
            elif isinstance(s, Lit):
                part = int.from_bytes(s.data, order)
            else:
                bs = _seg_bytes(ctx, s)
                if bs is None:
                    ok = False
                    break
                if order == "big":
                    bs = list(reversed(bs))
                part = 0
                for j, b in enumerate(bs):
                    part = _add(part, b * (256**j) if isinstance(b, int) else simp(b * (256**j)))
            total = _add(total, part * (256**off) if isinstance(part, int) else simp(Z(part) * (256**off)))
            off += ln
        if ok:
            val = total
    if val is None:
        t = to_term(ctx, rope)
        f = VAL_LE if order == "little" else VAL_BE
        val = f(t)
        ctx.assume(val >= 0)
        if isinstance(n, int) and n <= 64:
            ctx.assume(val < 256**n)
        elif not isinstance(n, int):
            p = POW256(Z(n))  # 256**n as an uninterpreted function of the symbolic length
            ctx.assume(z3.And(p >= 1, val < p))
        if signed:
            raise NotImplementedError("signed from_bytes of an opaque rope of symbolic length")
    if signed:
        if not isinstance(n, int):
            raise NotImplementedError("signed from_bytes of symbolic width")
        half = 256**n // 2
        if isinstance(val, int):
            return val - 256**n if val >= half else val
        return simp(z3.If(val >= half, val - 256**n, val))
    return _norm_int(val)


# ------------------------------------------------------------------------------------------------
# equality


def eq(ctx, r1: Rope, r2: Rope):
    """Formula (or bool) for r1 == r2 as byte strings."""
    l1, l2 = r1.length(), r2.length()
    if isinstance(l1, int) and isinstance(l2, int) and l1 != l2:
        return False
    c1, c2 = r1.concrete(), r2.concrete()
    if c1 is not None and c2 is not None:
        return c1 == c2
    conj = []
    if not _same(l1, l2):
        conj.append(Z(l1) == Z(l2))
    a, b = list(r1.segs), list(r2.segs)

    def settle(lst):
        """Resolve the head segment's length through the solver: drop it when empty, concretise Zeros."""
        while lst:
            h = lst[0]
            ln = h.length
            if isinstance(ln, int):
                return
            v = resolve_int(ctx, ln)
            if not isinstance(v, int):
                return
            if v == 0:
                lst.pop(0)
                continue
            if isinstance(h, Zeros):
                lst[0] = Lit(b"\x00" * v) if v <= 65536 else Zeros(v)
            elif isinstance(h, Atom):
                lst[0] = Atom(h.term, h.lo, _add(h.lo, v), h.full)
            return

    def intlike(x):
        return isinstance(x, (IntSeg, Lit, Zeros)) and isinstance(x.length, int)

    rounds = 0
    while a and b:
        settle(a)
        settle(b)
        if not a or not b:
            break
        rounds += 1
        if rounds > 4 * (len(r1.segs) + len(r2.segs)) + 64:
            # the cut-point search is not converging (length comparisons that keep coming back undecided): compare the
            # remainders as opaque terms instead - sound, merely less informative for the solver
            conj.append(to_term(ctx, Rope(a)) == to_term(ctx, Rope(b)))
            a, b = [], []
            break
        s, t = a[0], b[0]
        ls, lt = s.length, t.length
        # a k-byte integer facing several shorter integer / literal segments that together cover it: compare digit
        # by digit when the digits are syntactically the same chain variables (no solver work at all), else as ONE
        # integer equation (equal-length byte strings are equal iff their big-endian values are) - this avoids
        # digit-by-digit uniqueness reasoning, e.g. for two's complement content octets
        if intlike(s) and intlike(t) and not (isinstance(s, Lit) and isinstance(t, Lit)) and ls != lt:
            big, small, first_is_a = (a, b, True) if ls > lt else (b, a, False)
            target = big[0].length
            j, lb = 0, 0
            while lb < target and j < len(small) and intlike(small[j]):
                lb += small[j].length
                j += 1
            if lb == target and target <= 64:
                bs_big = _seg_bytes(ctx, big[0])
                bs_small = []
                for seg_ in small[:j]:
                    bb = _seg_bytes(ctx, seg_)
                    if bb is None:
                        bs_small = None
                        break
                    bs_small.extend(bb)
                same = bs_big is not None and bs_small is not None and all(
                    (isinstance(x, int) and isinstance(y, int) and x == y) or (not isinstance(x, int) and not isinstance(y, int) and x.eq(y)) for x, y in zip(bs_big, bs_small)
                )
                if not same:
                    conj.append(simp(Z(to_int(ctx, Rope(big[:1]), "big")) == Z(to_int(ctx, Rope(small[:j]), "big"))))
                del big[:1]
                del small[:j]
                continue
        if _same(ls, lt):
            conj.append(_eq_seg(ctx, s, t))
            a.pop(0)
            b.pop(0)
            continue
        # try to split the longer one when lengths are comparable without forking
        d = _decide(ctx, Z(ls) == Z(lt))
        if d:
            conj.append(_eq_seg(ctx, s, t))
            a.pop(0)
            b.pop(0)
            continue
        lt_ = _decide(ctx, Z(ls) < Z(lt)) if d is False or d is None else None
        if lt_ is True and _splittable(t, ls):
            left, right = _split_seg(ctx, t, ls)
            b[0:1] = left + right
            continue
        gt_ = _decide(ctx, Z(ls) > Z(lt)) if lt_ is not True else None
        if gt_ is True and _splittable(s, lt):
            left, right = _split_seg(ctx, s, lt)
            a[0:1] = left + right
            continue
        # stuck: opaque comparison of the remainders
        conj.append(to_term(ctx, Rope(a)) == to_term(ctx, Rope(b)))
        a, b = [], []
    if a or b:
        # remainder must be empty (its length is zero by the length equation)
        rest = Rope(a or b)
        conj.append(Z(rest.length()) == 0)
    conj = [c for c in conj if c is not True]
    if any(c is False for c in conj):
        return False
    if not conj:
        return True
    return simp(z3.And(*[Z(c) for c in conj]))


def _splittable(seg, d):
    if isinstance(seg, (Atom, Zeros)):
        return True
    return conc_int(d) is not None


def _eq_seg(ctx, s, t):
    """Equality of two segments of provably equal length."""
    if isinstance(s, Lit) and isinstance(t, Lit):
        return s.data == t.data
    if isinstance(s, IntSeg) and isinstance(t, IntSeg) and s.order == t.order:
        return simp(Z(s.value(ctx)) == Z(t.value(ctx)))
    if isinstance(s, Atom) and isinstance(t, Atom):
        if s.term.eq(t.term):
            return simp(z3.Or(Z(s.lo) == Z(t.lo), Z(s.length) == 0))
        if s.is_full() and t.is_full():
            return s.term == t.term
    if isinstance(s, Zeros) and isinstance(t, Zeros):
        return True
    ln = s.length
    if isinstance(ln, int) and ln <= MAX_EXPAND:
        # same-order integer views when possible, else bytewise
        for order in ("little", "big"):
            if (isinstance(s, IntSeg) and s.order == order) or (isinstance(t, IntSeg) and t.order == order):
                return simp(Z(to_int(ctx, Rope([s]), order)) == Z(to_int(ctx, Rope([t]), order)))
        bs, bt = _seg_bytes(ctx, s), _seg_bytes(ctx, t)
        if bs is not None and bt is not None:
            return simp(z3.And(*[Z(x) == Z(y) for x, y in zip(bs, bt)])) if bs else True
    return to_term(ctx, Rope([s])) == to_term(ctx, Rope([t]))
