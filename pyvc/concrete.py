"""Concrete mode of the symbolic interpreter: run a repo function on concrete arguments (guard G3 compares the
outcome with CPython's)."""
from __future__ import annotations

import sys

from . import rope as R
from .contracts import Registry
from .interp import Interp
from .path import PathCtx
from .values import Coro, PyRaise, SBytes, SEnum, SObj, SUUID, SView


def to_value(I, v):
    if isinstance(v, (bytes, bytearray)):
        return SBytes(R.Rope.lit(bytes(v)), "bytearray" if isinstance(v, bytearray) else "bytes")
    if isinstance(v, memoryview):
        return SBytes(R.Rope.lit(bytes(v)), "memoryview")
    if isinstance(v, list):
        return [to_value(I, x) for x in v]
    if isinstance(v, tuple):
        return tuple(to_value(I, x) for x in v)
    return v


def from_value(I, v):
    if isinstance(v, (SBytes, SView)):
        c = I.rope_of(v).concrete()
        if c is None:
            return ("<symbolic bytes>",)
        return bytes(c)
    if isinstance(v, SEnum):
        return from_value(I, v.value)
    if isinstance(v, SUUID):
        return ("uuid", v.rope.concrete())
    if isinstance(v, SObj):
        return (v.cls.name, {k: from_value(I, x) for k, x in v.fields.items()})
    if isinstance(v, (list, tuple)):
        return type(v)(from_value(I, x) for x in v)
    return v


def run(program, registry, dotted, args, kwargs=None):
    """Returns ('return', value) or ('raise', type name)."""
    ctx = PathCtx([], axioms=())
    I = Interp(program, registry, ctx, top=None)
    fi = program.find_func(dotted)
    try:
        r = I.call_repo(fi, [to_value(I, a) for a in args], {k: to_value(I, v) for k, v in (kwargs or {}).items()}, force_inline=True)
        if isinstance(r, Coro):
            r = r.value
        return ("return", from_value(I, r))
    except PyRaise as e:
        return ("raise", e.exc.type_name.split(":")[-1].split(".")[-1])
