"""Symbolic interpreter for the Python subset of DESIGN 2.9, driven by the real ASTs of the working tree."""
from __future__ import annotations

import ast
import builtins as _pybuiltins
import uuid as _uuid

import z3

from . import rope as R
from .smt import (
    Ref,
    Str,
    Z,
    blen,
    conc_bool,
    conc_int,
    fresh_bool,
    fresh_bytes,
    fresh_int,
    fresh_ref,
    fresh_str,
    is_bool_term,
    is_int_term,
    simp,
    str_lit,
)
from .values import (
    STRCAT,
    BoundMethod,
    BreakEx,
    Builtin,
    ClassRef,
    ContinueEx,
    Coro,
    EngineError,
    FuncRef,
    Lambda,
    FrameEscape,
    ModuleRef,
    OutOfReach,
    PathEnd,
    PyRaise,
    ReturnEx,
    SBytes,
    SEnum,
    SExc,
    SList,
    SObj,
    SRef,
    SStr,
    SUUID,
    SView,
)

MAX_DEPTH = 40
MAX_UNROLL = 300

ENC = z3.Function("ENC", z3.IntSort(), Str, R.Bytes)  # codec id, text -> bytes
DEC = z3.Function("DEC", z3.IntSort(), R.Bytes, Str)
DECODABLE = z3.Function("DECODABLE", z3.IntSort(), R.Bytes, z3.BoolSort())
STRLEN = z3.Function("STRLEN", Str, z3.IntSort())
# 4..6: codecs whose result depends on / adds a byte-order mark or uses the other byte order. They are opaque: no law relates them
# to utf-16-le, so a clause that needs decode(encode_le(x)) == x is refuted (not proved) when the code uses one of them.
CODECS = {"utf-16-le": 1, "utf-8": 2, "utf8": 2, "ascii": 3, "utf-16": 4, "utf16": 4, "utf_16": 4, "utf-16-be": 5, "utf-8-sig": 6, "utf_16_le": 1, "utf_8": 2}
CODEC_UNIT = {1: 2, 2: 1, 3: 1, 4: 2, 5: 2, 6: 1}
CODEC_NAME = {1: "utf-16-le", 2: "utf-8", 3: "ascii", 4: "utf-16", 5: "utf-16-be", 6: "utf-8-sig"}


class Env:
    def __init__(self, module, parent=None):
        self.module = module
        self.vars = {}
        self.parent = parent

    def lookup(self, name):
        e = self
        while e is not None:
            if name in e.vars:
                return True, e.vars[name]
            e = e.parent
        return False, None


class Frame:
    def __init__(self, fi, env, depth):
        self.fi = fi
        self.env = env
        self.depth = depth
        self.loop_ordinal = 0


def builtin_exc(name, args=()):
    cls = getattr(_pybuiltins, name)
    return SExc(name, [c.__name__ for c in cls.__mro__], args)


STRUCT_ERROR_MRO = ["struct.error", "Exception", "BaseException", "object"]


import os

TRACE_CALLS = bool(os.environ.get("PYVC_TRACE_CALLS"))


class Interp:
    def __init__(self, program, registry, ctx, top=None):
        self.P = program
        self.registry = registry
        self.ctx = ctx
        self.top = top  # FuncInfo under verification (its own contract is not applied to it at depth 0)
        self.frames: list[Frame] = []
        self.call_sites: dict = {}
        self.inlined: set[str] = set()
        self.contract_calls: set[str] = set()
        self.extern_calls: set[str] = set()
        self.top_label = None
        self.mutable_globals = set()
        self.exc_stack = []
        self.local_loops = {}  # loop annotations registered by the contract being verified
        self.on_call = {}  # dotted name -> callback(args dict) executed before a call (ghost monitors)
        self.yield_hook = None

    # ======================================================================== helpers
    def raise_(self, name, *args):
        try:
            self._raise(name, *args)
        except PyRaise as e:
            # where the interpreted program raised it (reported with a failed raises.only / raises.justified obligation)
            e.exc.origin = " <- ".join(f"{fr.fi.dotted}:{getattr(fr, 'lineno', '?')}" for fr in reversed(self.frames[-3:]))
            raise

    def _raise(self, name, *args):
        if name == "struct.error":
            raise PyRaise(SExc("struct.error", STRUCT_ERROR_MRO, args))
        cls = self.P.find_class(name) if not hasattr(_pybuiltins, name) else None
        if cls is not None and cls.is_exception:
            raise PyRaise(self.make_repo_exc(cls, args))
        if name in self.registry.extern_exceptions:
            raise PyRaise(SExc(name, [name] + self.registry.extern_exceptions[name], args))
        raise PyRaise(builtin_exc(name, args))

    def make_repo_exc(self, cls, args):
        mro = []
        for ref in cls.mro:
            mod, q = ref.split(":")
            mro.append(q if mod == "builtins" else ref)
        mro[0] = cls.ref
        return SExc(cls.ref, mro + [cls.name], args)

    def branch(self, cond):
        return self.ctx.branch(cond)

    def truthy(self, v):
        """Python truthiness -> bool (forking when symbolic)."""
        return self.branch(self.truth(v))

    def truth(self, v):
        """Python truthiness as bool or z3 Bool (no forking)."""
        if v is None:
            return False
        if isinstance(v, bool):
            return v
        if isinstance(v, int):
            return v != 0
        if is_bool_term(v):
            return v
        if is_int_term(v):
            return v != 0
        if isinstance(v, str):
            return len(v) > 0
        if isinstance(v, SStr):
            return STRLEN(v.term) != 0
        if isinstance(v, (SBytes, SView)):
            n = self.bytes_len(v)
            return n != 0 if isinstance(n, int) else Z(n) != 0
        if isinstance(v, (list, tuple, dict)):
            return len(v) > 0
        if isinstance(v, SList):
            return Z(v.length) != 0
        if isinstance(v, SEnum):
            if v.cls.enum["int"]:
                return self.truth(v.value)
            return True
        if isinstance(v, SObj):
            if v.cls.namedtuple:
                return len(v.cls.namedtuple["fields"]) > 0
            m = self.P.method(v.cls, "__bool__")
            if m:
                return self.truth(self.call_repo(m[0], [v], {}))
            m = self.P.method(v.cls, "__len__")
            if m:
                return self.truth(self.call_repo(m[0], [v], {}))
            return True
        return True

    # ------------------------------------------------------------------ bytes helpers
    def rope_of(self, v) -> R.Rope:
        if isinstance(v, SBytes):
            return v.rope
        if isinstance(v, SView):
            return R.slice_norm(self.ctx, v.base.rope, v.start, v.stop)
        if isinstance(v, (bytes, bytearray)):
            return R.Rope.lit(bytes(v))
        raise EngineError(f"not bytes-like: {v!r}")

    def is_byteslike(self, v):
        return isinstance(v, (SBytes, SView, bytes, bytearray))

    def bytes_len(self, v):
        if isinstance(v, SView):
            return R._sub(v.stop, v.start)
        return self.rope_of(v).length()

    def mk_bytes(self, rope, kind="bytes"):
        return SBytes(rope, kind)

    def fresh_bytes_value(self, prefix="B", length=None, kind="bytes"):
        t = fresh_bytes(prefix)
        self.ctx.assume(blen(t) >= 0)
        if length is not None:
            self.ctx.assume(blen(t) == Z(length))
        return SBytes(R.Rope([R.full_atom(t)]), kind)

    # ------------------------------------------------------------------ str helpers
    def str_term(self, v):
        if isinstance(v, SStr):
            return v.term
        if isinstance(v, str):
            return str_lit(v)
        raise EngineError(f"not a str: {v!r}")

    def encode(self, v, codec):
        cid = CODECS.get(codec.lower())
        if cid is None:
            raise OutOfReach(f"codec {codec}")
        if isinstance(v, str):
            try:
                return SBytes(R.Rope.lit(v.encode(codec)))
            except UnicodeEncodeError:
                self.raise_("UnicodeEncodeError")
        return SBytes(self._enc_rope(cid, v.term))

    def _enc_rope(self, cid, term):
        if z3.is_app(term) and term.decl().eq(STRCAT):
            return self._enc_rope(cid, term.arg(0)) + self._enc_rope(cid, term.arg(1))
        for s, t in list(__import__("pyvc.smt", fromlist=["_str_lits"])._str_lits.items()):
            if t.eq(term):
                return R.Rope.lit(s.encode(CODEC_NAME[cid]))
        e = ENC(cid, term)
        self.ctx.assume(blen(e) >= 0)
        if CODEC_UNIT[cid] == 2:
            self.ctx.assume(blen(e) % 2 == 0)
        return R.Rope([R.full_atom(e)])

    def decode(self, v, codec):
        cid = CODECS.get(codec.lower())
        if cid is None:
            raise OutOfReach(f"codec {codec}")
        rope = self.rope_of(v)
        c = rope.concrete()
        if c is not None:
            try:
                return c.decode(codec)
            except UnicodeDecodeError:
                self.raise_("UnicodeDecodeError")
        segs = rope.segs
        if len(segs) == 1 and isinstance(segs[0], R.Atom) and segs[0].is_full():
            t = segs[0].term
            if z3.is_app(t) and t.decl().eq(ENC) and conc_int(t.arg(0)) == cid:
                return SStr(t.arg(1))
        t = R.to_term(self.ctx, rope)
        if not self.branch(DECODABLE(cid, t)):
            self.raise_("UnicodeDecodeError")
        s = DEC(cid, t)
        self.ctx.assume(ENC(cid, s) == t)
        return SStr(s)

    # ======================================================================== equality
    def eq(self, a, b):
        """Python == as bool or z3 Bool."""
        if a is None or b is None:
            return a is None and b is None
        if isinstance(a, SEnum) or isinstance(b, SEnum):
            return self._eq_enum(a, b)
        if isinstance(a, (bool, int)) and isinstance(b, (bool, int)):
            return a == b
        if (isinstance(a, (bool, int)) or is_int_term(a) or is_bool_term(a)) and (
            isinstance(b, (bool, int)) or is_int_term(b) or is_bool_term(b)
        ):
            if is_bool_term(a) or is_bool_term(b):
                if isinstance(a, bool) or is_bool_term(a):
                    if isinstance(b, bool) or is_bool_term(b):
                        return simp(Z(a) == Z(b))
                a = z3.If(a, 1, 0) if is_bool_term(a) else a
                b = z3.If(b, 1, 0) if is_bool_term(b) else b
            return simp(Z(int(a) if isinstance(a, bool) else a) == Z(int(b) if isinstance(b, bool) else b))
        if isinstance(a, (str, SStr)) and isinstance(b, (str, SStr)):
            if isinstance(a, str) and isinstance(b, str):
                return a == b
            return simp(self.str_term(a) == self.str_term(b))
        if self.is_byteslike(a) and self.is_byteslike(b):
            return R.eq(self.ctx, self.rope_of(a), self.rope_of(b))
        if isinstance(a, SUUID) and isinstance(b, SUUID):
            return R.eq(self.ctx, a.rope, b.rope)
        if isinstance(a, (tuple, list)) and isinstance(b, (tuple, list)):
            if type(a) is not type(b) or len(a) != len(b):
                return False
            return self._and([self.eq(x, y) for x, y in zip(a, b)])
        if isinstance(a, SObj) and isinstance(b, SObj):
            if a is b:
                return True
            if a.cls.namedtuple and b.cls.namedtuple:
                fa, fb = a.cls.namedtuple["fields"], b.cls.namedtuple["fields"]
                if len(fa) != len(fb):
                    return False
                return self._and([self.eq(a.fields[x], b.fields[y]) for x, y in zip(fa, fb)])
            if a.cls.dataclass and b.cls.dataclass and a.cls.dataclass.get("eq", True):
                if a.cls.ref != b.cls.ref:
                    return False
                return self._and([self.eq(a.fields[f["name"]], b.fields[f["name"]]) for f in a.cls.dataclass["fields"]])
            return False
        if isinstance(a, SObj) and a.cls.namedtuple and isinstance(b, tuple):
            return self.eq(tuple(a.fields[f] for f in a.cls.namedtuple["fields"]), b)
        if isinstance(b, SObj) and b.cls.namedtuple and isinstance(a, tuple):
            return self.eq(b, a)
        if isinstance(a, SRef) and isinstance(b, SRef):
            return simp(a.term == b.term)
        if isinstance(a, ClassRef) and isinstance(b, ClassRef):
            return a.cls.ref == b.cls.ref
        if isinstance(a, Builtin) and isinstance(b, Builtin):
            return a.name == b.name and a.bound is b.bound
        if type(a) is not type(b):
            return False
        return a is b

    def _eq_enum(self, a, b):
        if isinstance(a, SEnum) and isinstance(b, SEnum):
            if a.cls.enum["int"] and b.cls.enum["int"]:
                return self.eq(a.value, b.value)
            if a.cls.ref != b.cls.ref:
                return False
            return self.eq(a.value, b.value)
        e, o = (a, b) if isinstance(a, SEnum) else (b, a)
        if e.cls.enum["int"] and (isinstance(o, (int, bool)) or is_int_term(o)):
            return self.eq(e.value, o)
        if e.cls.enum["str"] and isinstance(o, (str, SStr)):
            return self.eq(e.value, o)
        return False

    def _and(self, xs):
        out = []
        for x in xs:
            if x is False:
                return False
            if x is True:
                continue
            out.append(x)
        if not out:
            return True
        return simp(z3.And(*out))

    def _or(self, xs):
        out = []
        for x in xs:
            if x is True:
                return True
            if x is False:
                continue
            out.append(x)
        if not out:
            return False
        return simp(z3.Or(*out))

    def _not(self, x):
        if isinstance(x, bool):
            return not x
        return simp(z3.Not(x))

    # ======================================================================== dumps -> values
    def from_dump(self, d):
        k = d["k"]
        if k == "const":
            return d["v"]
        if k == "int":
            return int(d["v"])
        if k == "bytes":
            return SBytes(R.Rope.lit(bytes.fromhex(d["hex"])))
        if k == "uuid":
            return SUUID(R.Rope.lit(_uuid.UUID(hex=d["hex"]).bytes_le))
        if k == "regex":
            from .builtins import RegexVal

            return RegexVal(d["pattern"], d.get("flags", 0))
        if k == "enum":
            cls = self.P.classes[d["cls"]]
            return SEnum(cls, self.from_dump(d["value"]), d["name"])
        if k == "obj":
            cls = self.P.classes[d["cls"]]
            return SObj(cls, {n: self.from_dump(v) for n, v in d["fields"].items()})
        if k == "list":
            return [self.from_dump(x) for x in d["items"]]
        if k == "tuple":
            return tuple(self.from_dump(x) for x in d["items"])
        if k == "dict":
            return DictVal([(self.from_dump(a), self.from_dump(b)) for a, b in d["items"]])
        if k == "class":
            cls = self.P.classes.get(d["ref"])
            if cls is not None:
                return ClassRef(cls)
            return Builtin("class:" + d["ref"])
        if k == "func":
            fi = self.P.funcs.get(d["ref"])
            if fi is not None:
                return FuncRef(fi)
            return Builtin("func:" + d["ref"])
        if k == "method":
            fi = self.P.funcs.get(d["func"])
            cls = self.P.classes.get(d["cls"])
            if fi is not None and cls is not None:
                return BoundMethod(fi, ClassRef(cls))
            return Builtin("method:" + d["func"])
        if k == "module":
            return ModuleRef(d["name"])
        return Builtin("other:" + d.get("repr", "?"))

    # ======================================================================== names
    def lookup_name(self, name, env):
        found, v = env.lookup(name)
        if found:
            return v
        return self.lookup_global(env.module, name)

    def lookup_global(self, module, name):
        imp = self.P.imports.get(module, {}).get(name)
        if imp is not None:
            if imp[0] == "mod":
                return ModuleRef(imp[1])
            modname, orig = imp[1], imp[2]
            if modname in self.P.module_ast:
                return self.lookup_global(modname, orig)
            if modname.startswith("dpapi_ng") and modname + "." + orig in self.P.module_ast:
                return ModuleRef(modname + "." + orig)
            return ModuleRef(modname + "." + orig) if self._is_extern_module(modname, orig) else Builtin(f"{modname}.{orig}")
        fi = self.P.funcs.get(f"{module}:{name}")
        if fi is not None:
            return FuncRef(fi)
        cls = self.P.classes.get(f"{module}:{name}")
        if cls is not None:
            return ClassRef(cls)
        g = self.P.globals.get(module, {})
        if name in g:
            if g[name]["k"] in ("dict", "list") and name not in self.registry.constant_globals and not name.startswith("__"):
                # a module-level mutable container that is not one of the constant tables of the reference tree: the
                # function's result may depend on what earlier calls left there (frame condition, reported by the driver)
                self.mutable_globals.add(f"{module}.{name}")
            if g[name]["k"] == "other" and str(g[name].get("repr", "")).startswith("<dpapi_ng.") and name not in self.registry.constant_globals and not name.startswith("__"):
                # a module-level object instance (a pool, a cache, a client): shared mutable state as well
                self.mutable_globals.add(f"{module}.{name}")
            return self.from_dump(g[name])
        if hasattr(_pybuiltins, name):
            return Builtin(name)
        raise EngineError(f"unresolved name {name} in {module}")

    def _is_extern_module(self, modname, orig):
        return orig in ("hashes", "keywrap", "ec", "iov") or modname in ("spnego",)

    # ======================================================================== expressions
    def eval(self, node, env):
        m = getattr(self, "e_" + type(node).__name__, None)
        if m is None:
            raise OutOfReach(f"expression {type(node).__name__}")
        return m(node, env)

    def e_Constant(self, node, env):
        v = node.value
        if isinstance(v, bytes):
            return SBytes(R.Rope.lit(v))
        if v is Ellipsis:
            raise OutOfReach("Ellipsis")
        return v

    def e_Name(self, node, env):
        return self.lookup_name(node.id, env)

    def e_Tuple(self, node, env):
        return tuple(self._eval_elts(node.elts, env))

    def e_List(self, node, env):
        return list(self._eval_elts(node.elts, env))

    def _eval_elts(self, elts, env):
        out = []
        for e in elts:
            if isinstance(e, ast.Starred):
                out.extend(self.iter_values(self.eval(e.value, env)))
            else:
                out.append(self.eval(e, env))
        return out

    def e_Dict(self, node, env):
        return DictVal([(self.eval(k, env), self.eval(v, env)) for k, v in zip(node.keys, node.values)])

    def strcat(self, parts):
        """Concatenation of text pieces (Python str or SStr) in a canonical form: STRCAT chains are flattened, adjacent
        literals merged, empty literals dropped, and the result is rebuilt left-nested - so that `"a" + "b." + x`,
        f"{A}.{x}" with a constant A, and "a.b." + x are one term (STRCAT is uninterpreted: associativity is by construction)."""
        from . import smt as _smt

        rev = {t.get_id(): lit for lit, t in _smt._str_lits.items()}
        leaves = []

        def flat(t):
            if z3.is_app(t) and t.decl().eq(STRCAT):
                flat(t.arg(0))
                flat(t.arg(1))
            elif t.get_id() in rev:
                leaves.append(rev[t.get_id()])
            else:
                leaves.append(t)

        for p_ in parts:
            if isinstance(p_, str):
                leaves.append(p_)
            else:
                flat(self.str_term(p_))
        merged = []
        for x in leaves:
            if isinstance(x, str):
                if x == "":
                    continue
                if merged and isinstance(merged[-1], str):
                    merged[-1] += x
                    continue
            merged.append(x)
        if not merged:
            return ""
        if len(merged) == 1 and isinstance(merged[0], str):
            return merged[0]
        term = None
        for x in merged:
            t = str_lit(x) if isinstance(x, str) else x
            term = t if term is None else STRCAT(term, t)
        return SStr(term)

    def e_JoinedStr(self, node, env):
        parts = []
        sym = False
        for v in node.values:
            if isinstance(v, ast.Constant):
                parts.append(v.value)
            else:
                val = self.eval(v.value, env)
                if v.format_spec is None and v.conversion == -1 and isinstance(val, str):
                    parts.append(val)
                elif v.format_spec is None and v.conversion == -1 and isinstance(val, int) and not isinstance(val, bool):
                    parts.append(str(val))
                elif v.format_spec is None and v.conversion == -1 and isinstance(val, SStr):
                    parts.append(val)
                    sym = True
                else:
                    parts.append(SStr(fresh_str("fstr")))
                    sym = True
        if not sym:
            return "".join(parts)
        # symbolic text: keep literal prefix/suffix structure when possible
        return self.strcat(parts)

    def e_Lambda(self, node, env):
        return Lambda(node, env, env.module)

    def e_IfExp(self, node, env):
        if self.truthy(self.eval(node.test, env)):
            return self.eval(node.body, env)
        return self.eval(node.orelse, env)

    def e_BoolOp(self, node, env):
        is_and = isinstance(node.op, ast.And)
        v = None
        for i, sub in enumerate(node.values):
            v = self.eval(sub, env)
            if i == len(node.values) - 1:
                return v
            t = self.truthy(v)
            if is_and and not t:
                return v
            if not is_and and t:
                return v
        return v

    def e_UnaryOp(self, node, env):
        v = self.eval(node.operand, env)
        if isinstance(node.op, ast.Not):
            return self._not(self.truth(v))
        v = self.as_int(v)
        if isinstance(node.op, ast.USub):
            return -v if isinstance(v, int) else simp(-v)
        if isinstance(node.op, ast.UAdd):
            return v
        if isinstance(node.op, ast.Invert):
            return -v - 1 if isinstance(v, int) else simp(-v - 1)
        raise OutOfReach("unary op")

    def e_Compare(self, node, env):
        left = self.eval(node.left, env)
        res = []
        for op, rnode in zip(node.ops, node.comparators):
            right = self.eval(rnode, env)
            c = self.compare(op, left, right)
            res.append(c)
            if len(node.ops) > 1:
                # short circuit semantics: later operands are still pure expressions in this code base
                pass
            left = right
        return res[0] if len(res) == 1 else self._and(res)

    def compare(self, op, a, b):
        if isinstance(op, ast.Eq):
            return self.eq(a, b)
        if isinstance(op, ast.NotEq):
            return self._not(self.eq(a, b))
        if isinstance(op, ast.Is):
            return self.identical(a, b)
        if isinstance(op, ast.IsNot):
            return self._not(self.identical(a, b))
        if isinstance(op, (ast.In, ast.NotIn)):
            r = self.contains(b, a)
            return r if isinstance(op, ast.In) else self._not(r)
        if isinstance(a, tuple) and isinstance(b, tuple):
            # lexicographic order on tuples
            from .builtins import _lt

            if isinstance(op, ast.Lt):
                return _lt(self, a, b)
            if isinstance(op, ast.Gt):
                return _lt(self, b, a)
            if isinstance(op, ast.LtE):
                return self._not(_lt(self, b, a))
            return self._not(_lt(self, a, b))
        x, y = self.as_int(a), self.as_int(b)
        if isinstance(x, int) and isinstance(y, int):
            return {ast.Lt: x < y, ast.LtE: x <= y, ast.Gt: x > y, ast.GtE: x >= y}[type(op)]
        x, y = Z(x), Z(y)
        return simp({ast.Lt: x < y, ast.LtE: x <= y, ast.Gt: x > y, ast.GtE: x >= y}[type(op)])

    def identical(self, a, b):
        if a is None or b is None:
            return a is None and b is None
        if isinstance(a, bool) and isinstance(b, bool):
            return a == b
        return a is b

    def contains(self, container, item):
        if isinstance(container, (list, tuple)):
            return self._or([self.eq(item, x) for x in container])
        if isinstance(container, DictVal):
            return self._or([self.eq(item, k) for k, _ in container.items])
        if isinstance(container, str) and isinstance(item, str):
            return item in container
        raise OutOfReach(f"'in' on {type(container).__name__}")

    def as_int(self, v):
        if isinstance(v, bool):
            return int(v)
        if isinstance(v, int) or is_int_term(v):
            return v
        if is_bool_term(v):
            return simp(z3.If(v, 1, 0))
        if isinstance(v, SEnum) and (v.cls.enum["int"]):
            return self.as_int(v.value if v.int_value is None else v.int_value)
        raise EngineError(f"not an int: {v!r}")

    def is_intlike(self, v):
        return isinstance(v, (bool, int)) or is_int_term(v) or is_bool_term(v) or (isinstance(v, SEnum) and v.cls.enum["int"])

    def e_BinOp(self, node, env):
        a = self.eval(node.left, env)
        b = self.eval(node.right, env)
        return self.binop(node.op, a, b)

    def binop(self, op, a, b):
        if self.is_intlike(a) and self.is_intlike(b):
            flag_cls = None
            if isinstance(a, SEnum) and a.cls.enum["flag"] and isinstance(op, (ast.BitOr, ast.BitAnd, ast.BitXor)):
                flag_cls = a.cls
            r = self.int_binop(op, self.as_int(a), self.as_int(b))
            if flag_cls is not None and (isinstance(b, SEnum) or True):
                return SEnum(flag_cls, r)
            return r
        if self.is_byteslike(a) and self.is_byteslike(b) and isinstance(op, ast.Add):
            kind = "bytearray" if getattr(a, "kind", "bytes") == "bytearray" else "bytes"
            n = self.bytes_len(b)
            self.ctx.tick("copied", 0)
            return SBytes(self.rope_of(a) + self.rope_of(b), kind)
        if self.is_byteslike(a) and self.is_intlike(b) and isinstance(op, ast.Mult):
            return self.bytes_repeat(a, self.as_int(b))
        if self.is_intlike(a) and self.is_byteslike(b) and isinstance(op, ast.Mult):
            return self.bytes_repeat(b, self.as_int(a))
        if isinstance(a, (str, SStr)) and isinstance(b, (str, SStr)) and isinstance(op, ast.Add):
            if isinstance(a, str) and isinstance(b, str):
                return a + b
            return self.strcat([a, b])
        if isinstance(a, list) and isinstance(b, list) and isinstance(op, ast.Add):
            return a + b
        if isinstance(a, tuple) and isinstance(b, tuple) and isinstance(op, ast.Add):
            return a + b
        if isinstance(a, str) and isinstance(op, ast.Mod):
            raise OutOfReach("% string formatting")
        if isinstance(a, Builtin) and isinstance(b, Builtin) and isinstance(op, ast.BitOr) and a.bound is None and b.bound is None:
            # a | b of two members of the same external flag enumeration (e.g. spnego.ContextReq.default | .dce_style): the set of
            # member names, in canonical order; what the flags mean is the external library's business (A-SPNEGO)
            pa, _, ma = a.name.rpartition(".")
            pb, _, mb = b.name.rpartition(".")
            if pa and pa == pb:
                members = sorted(set(ma.strip("()").split("|")) | set(mb.strip("()").split("|")))
                return Builtin(f"{pa}.({'|'.join(members)})")
        raise OutOfReach(f"binary {type(op).__name__} on {type(a).__name__}, {type(b).__name__}")

    def bytes_repeat(self, v, n):
        rope = self.rope_of(v)
        c = rope.concrete()
        if c is None or c != b"\x00" * len(c) or len(c) != 1:
            if isinstance(n, int) and c is not None:
                return SBytes(R.Rope.lit(c * n))
            raise OutOfReach("repetition of non-zero bytes by a symbolic count")
        if isinstance(n, int):
            return SBytes(R.Rope.lit(b"\x00" * max(n, 0)))
        # b"\x00" * n with symbolic n: n <= 0 gives empty
        if R._decide_or_branch(self.ctx, Z(n) <= 0):
            return SBytes(R.Rope())
        return SBytes(R.Rope([R.Zeros(n)]))

    def int_binop(self, op, a, b):
        if isinstance(a, int) and isinstance(b, int):
            try:
                if isinstance(op, ast.Add):
                    return a + b
                if isinstance(op, ast.Sub):
                    return a - b
                if isinstance(op, ast.Mult):
                    return a * b
                if isinstance(op, ast.FloorDiv):
                    return a // b
                if isinstance(op, ast.Mod):
                    return a % b
                if isinstance(op, ast.Pow):
                    if b < 0:
                        raise OutOfReach("negative power")
                    return a**b
                if isinstance(op, ast.LShift):
                    return a << b
                if isinstance(op, ast.RShift):
                    return a >> b
                if isinstance(op, ast.BitAnd):
                    return a & b
                if isinstance(op, ast.BitOr):
                    return a | b
                if isinstance(op, ast.BitXor):
                    return a ^ b
                if isinstance(op, ast.Div):
                    from .builtins import true_div

                    return true_div(self, a, b)
            except ZeroDivisionError:
                self.raise_("ZeroDivisionError")
            except ValueError:
                self.raise_("ValueError")
        A, B = Z(a), Z(b)
        if isinstance(op, ast.Add):
            return simp(A + B)
        if isinstance(op, ast.Sub):
            return simp(A - B)
        if isinstance(op, ast.Mult):
            return simp(A * B)
        if isinstance(op, (ast.FloorDiv, ast.Mod)):
            bc = conc_int(b)
            if bc is None:
                # need the sign of the divisor: only positive divisors are modelled
                if not self.ctx.entails(B > 0):
                    if self.branch(B == 0):
                        self.raise_("ZeroDivisionError")
                    if not self.ctx.entails(B > 0):
                        raise OutOfReach("floor division by a possibly negative symbolic divisor")
            elif bc == 0:
                self.raise_("ZeroDivisionError")
            elif bc < 0:
                raise OutOfReach("floor division by a negative constant")
            if bc is not None:
                return self.ctx.div(A, bc) if isinstance(op, ast.FloorDiv) else self.ctx.mod(A, bc)
            return simp(A / B) if isinstance(op, ast.FloorDiv) else simp(A % B)
        if isinstance(op, ast.LShift):
            bc = conc_int(b)
            if bc is None:
                return self.shift_symbolic(a, b, left=True)
            if bc < 0:
                self.raise_("ValueError")
            return simp(A * (2**bc))
        if isinstance(op, ast.RShift):
            bc = conc_int(b)
            if bc is None:
                return self.shift_symbolic(a, b, left=False)
            if bc < 0:
                self.raise_("ValueError")
            return self.ctx.div(A, 2**bc)
        if isinstance(op, (ast.BitAnd, ast.BitOr, ast.BitXor)):
            return self.bitop(op, a, b)
        if isinstance(op, ast.Div):
            from .builtins import true_div

            return true_div(self, a, b)
        if isinstance(op, ast.Pow):
            raise OutOfReach("symbolic power")
        raise OutOfReach(f"int op {type(op).__name__}")

    def shift_symbolic(self, a, b, left):
        # shift by a symbolic amount: a finite case split when the amount is provably small, else an uninterpreted SHL/SHR
        # with the facts that are true of it (sign, monotonicity in the operand is not needed by any contract)
        iv = self.ctx.interval(simp(Z(b)))
        small = iv is not None and iv[0] is not None and iv[1] is not None and iv[0] >= 0 and iv[1] <= 64
        if not small and not self.ctx.entails(z3.And(Z(b) >= 0, Z(b) <= 64)):
            if self.branch(Z(b) < 0):
                self.raise_("ValueError")
            f = z3.Function("SHL" if left else "SHR", z3.IntSort(), z3.IntSort(), z3.IntSort())
            r = f(Z(a), Z(b))
            self.ctx.assume(z3.Implies(Z(a) >= 0, r >= 0))
            if not left:
                self.ctx.assume(z3.Implies(Z(a) >= 0, r <= Z(a)))
            return r
        for k in range(0, 65):
            if self.ctx.entails(Z(b) == k):
                return self.int_binop(ast.LShift() if left else ast.RShift(), a, k)
            if self.ctx.solver.check(Z(b) == k) != z3.unsat:
                if self.branch(Z(b) == k):
                    return self.int_binop(ast.LShift() if left else ast.RShift(), a, k)
        raise OutOfReach("shift by an unbounded symbolic amount")

    def bitop(self, op, a, b):
        """&, |, ^ with at least one symbolic operand."""
        ca, cb = conc_int(a), conc_int(b)
        if ca is not None and cb is None:
            a, b, ca, cb = b, a, cb, ca
        A = Z(a)
        if cb is not None and cb >= 0:
            mask = cb
            if isinstance(op, ast.BitAnd):
                # contiguous mask: ((a div 2^lo) mod 2^w) * 2^lo ; valid for any integer a (two's complement, floor)
                if mask == 0:
                    return 0
                lo = (mask & -mask).bit_length() - 1
                w = (mask >> lo).bit_length()
                if (mask >> lo) == (1 << w) - 1:
                    iv = self.ctx.interval(simp(A)) if lo == 0 else None
                    if iv is not None and iv[0] is not None and iv[1] is not None and iv[0] >= 0 and iv[1] <= mask:
                        return a  # already within the mask (known from the ranges of its digits; no solver call)
                    return simp(self.ctx.mod(self.ctx.div(A, 2**lo), 2**w) * (2**lo))
                # general non-negative mask: sum over set bits
                tot = 0
                for i in range(mask.bit_length()):
                    if mask >> i & 1:
                        tot = tot + ((A / (2**i)) % 2) * (2**i)
                return simp(tot)
            if isinstance(op, ast.BitOr):
                # a | m = a + (m & ~a) = a + sum of bits of m not set in a
                if mask == 0:
                    return a
                tot = A
                for i in range(mask.bit_length()):
                    if mask >> i & 1:
                        tot = tot + (1 - (A / (2**i)) % 2) * (2**i)
                return simp(tot)
            if isinstance(op, ast.BitXor):
                if mask == 0:
                    return a
                if mask & (mask + 1) == 0:
                    # a ^ (2^w - 1) = (2^w - 1) - a  for 0 <= a < 2^w (complement within the field)
                    iv = self.ctx.interval(simp(A))
                    if (iv is not None and iv[0] is not None and iv[1] is not None and iv[0] >= 0 and iv[1] <= mask) or self.ctx.entails(z3.And(A >= 0, A <= mask)):
                        return simp(mask - A)
                tot = A
                for i in range(mask.bit_length()):
                    if mask >> i & 1:
                        tot = tot + (1 - 2 * ((A / (2**i)) % 2)) * (2**i)
                return simp(tot)
        # both symbolic: only the disjoint-OR pattern (hi << k) | lo with 0 <= lo < 2^k is supported
        if isinstance(op, ast.BitOr):
            for x, y in ((a, b), (b, a)):
                X, Y = Z(x), Z(y)
                iv = self.ctx.interval(simp(Y))
                if iv is not None and iv[0] is not None and iv[1] is not None and iv[0] >= 0:
                    # the width of the low operand is known from its range: one divisibility query decides
                    k0 = max(int(iv[1]).bit_length(), 1)
                    for k in [k0] + [w for w in (7, 8, 16) if w > k0]:
                        if self.ctx.entails(X % (2**k) == 0):
                            return simp(X + Y)
                for k in (8, 7, 16, 6, 5, 4, 3, 2, 1, 14, 15):
                    if self.ctx.entails(z3.And(Y >= 0, Y < 2**k)) and self.ctx.entails(X % (2**k) == 0):
                        return simp(X + Y)
                # small flag fields: both within 0..255 -> bitwise via BV round trip
            if self.ctx.entails(z3.And(Z(a) >= 0, Z(a) < 65536, Z(b) >= 0, Z(b) < 65536)):
                return simp(z3.BV2Int(z3.Int2BV(Z(a), 16) | z3.Int2BV(Z(b), 16)))
        if isinstance(op, ast.BitAnd):
            if self.ctx.entails(z3.And(Z(a) >= 0, Z(a) < 65536, Z(b) >= 0, Z(b) < 65536)):
                return simp(z3.BV2Int(z3.Int2BV(Z(a), 16) & z3.Int2BV(Z(b), 16)))
        import os
        if os.environ.get("PYVC_DEBUG"):
            print("BITOP", op, simp(Z(a)), simp(Z(b)), file=__import__("sys").stderr)
        raise OutOfReach("bit operation on two symbolic integers")

    # ------------------------------------------------------------------ attribute / subscript
    def e_Attribute(self, node, env):
        obj = self.eval(node.value, env)
        return self.getattr(obj, node.attr)

    def getattr(self, obj, name):
        if isinstance(obj, SObj):
            if name in obj.fields:
                return obj.fields[name]
            m = self.P.method(obj.cls, name)
            if m:
                fi, kind, owner = m
                if kind == "property":
                    return self.call_repo(fi, [obj], {})
                if kind == "classmethod":
                    return BoundMethod(fi, ClassRef(obj.cls))
                if kind == "staticmethod":
                    return FuncRef(fi)
                return BoundMethod(fi, obj)
            a = self.P.class_attr(obj.cls, name)
            if a is not None:
                return self.from_dump(a)
            if name == "_fields" and obj.cls.namedtuple:
                return tuple(obj.cls.namedtuple["fields"])
            raise FrameEscape(f"attribute {name} of {obj!r} is not a declared field of the object: state outside the frame of the contract")
        if isinstance(obj, ClassRef):
            cls = obj.cls
            if cls.enum:
                for n, v in cls.enum["members"]:
                    if n == name:
                        return SEnum(cls, self.from_dump(v), n)
            m = self.P.method(cls, name)
            if m:
                fi, kind, owner = m
                if kind == "classmethod":
                    return BoundMethod(fi, obj)
                return FuncRef(fi)
            a = self.P.class_attr(cls, name)
            if a is not None:
                return self.from_dump(a)
            if name == "__name__":
                return cls.name
            raise EngineError(f"class attribute {cls.ref}.{name}")
        if isinstance(obj, SEnum):
            if name == "value":
                return obj.value
            if name == "name":
                if obj.name is not None:
                    return obj.name
                return SStr(fresh_str("enumname"))
            if name == "to_bytes":
                return Builtin("m:to_bytes", bound=self.as_int(obj))
            if obj.cls.enum["str"]:
                return Builtin("m:" + name, bound=obj.value)  # a str-based enum member behaves as its string
            raise EngineError(f"enum attribute {name}")
        if isinstance(obj, ModuleRef):
            full = f"{obj.name}.{name}"
            if full in self.P.module_ast:
                return ModuleRef(full)
            if obj.name in self.P.module_ast:
                return self.lookup_global(obj.name, name)
            if obj.name in ("socket", "errno", "ssl", "select") and name.isupper():
                # integer constants of the platform (same kernel ABI for both interpreters)
                import importlib

                cv = getattr(importlib.import_module(obj.name), name, None)
                if isinstance(cv, int) and not isinstance(cv, bool):
                    return int(cv)
            return Builtin(full)
        if isinstance(obj, Builtin):
            return Builtin(f"{obj.name}.{name}", bound=obj.bound)
        if isinstance(obj, SUUID):
            if name == "bytes_le":
                return SBytes(obj.rope)
            raise OutOfReach(f"UUID.{name}")
        if isinstance(obj, BoundMethod) and name == "__func__":
            return FuncRef(obj.fi)
        if isinstance(obj, SRef):
            if name in obj.attrs:
                return obj.attrs[name]
            h = self.registry.extern_attr(self, obj, name)
            if h is not NotImplemented:
                return h
            return Builtin(f"ref:{obj.kind}.{name}", bound=obj)
        if isinstance(obj, SExc):
            raise OutOfReach("exception attribute")
        # methods of builtin values
        return Builtin("m:" + name, bound=obj)

    def e_Subscript(self, node, env):
        obj = self.eval(node.value, env)
        if isinstance(node.slice, ast.Slice):
            lo = self.eval(node.slice.lower, env) if node.slice.lower else None
            hi = self.eval(node.slice.upper, env) if node.slice.upper else None
            if node.slice.step is not None:
                raise OutOfReach("slice step")
            return self.getslice(obj, lo, hi)
        idx = self.eval(node.slice, env)
        return self.getitem(obj, idx)

    def getslice(self, obj, lo, hi):
        lo = None if lo is None else self.as_int(lo)
        hi = None if hi is None else self.as_int(hi)
        if isinstance(obj, SView):
            n = self.bytes_len(obj)
            a = R.clamp_index(self.ctx, lo, n, 0)
            b = R.clamp_index(self.ctx, hi, n, n)
            if R._decide_or_branch(self.ctx, Z(b) < Z(a)):
                b = a
            return SView(obj.base, R._add(obj.start, a), R._add(obj.start, b))
        if isinstance(obj, SBytes):
            kind = obj.kind
            return SBytes(R.py_slice(self.ctx, obj.rope, lo, hi), kind)
        if isinstance(obj, (list, tuple, str)):
            if (lo is None or isinstance(lo, int)) and (hi is None or isinstance(hi, int)):
                return obj[lo:hi]
            raise OutOfReach("symbolic slice of a list/tuple/str")
        if isinstance(obj, SStr):
            f = z3.Function("SUBSTR", Str, z3.IntSort(), z3.IntSort(), Str)  # opaque: s[lo:hi] (None encoded as -2**62 / 2**62)
            return SStr(f(obj.term, Z(-(2**62) if lo is None else lo), Z(2**62 if hi is None else hi)))
        raise OutOfReach(f"slice of {type(obj).__name__}")

    def getitem(self, obj, idx):
        if isinstance(obj, (SBytes, SView)):
            i = self.as_int(idx)
            n = self.bytes_len(obj)
            if isinstance(i, int) and isinstance(n, int):
                if i < -n or i >= n:
                    self.raise_("IndexError")
            else:
                if self.branch(simp(z3.Or(Z(i) >= Z(n), Z(i) < -Z(n)))):
                    self.raise_("IndexError")
            if not isinstance(i, int) or i < 0:
                if R._decide_or_branch(self.ctx, Z(i) < 0):
                    i = R._add(i, n)
            rope = self.rope_of(obj)
            one = R.slice_norm(self.ctx, rope, i, R._add(i, 1))
            return R.to_int(self.ctx, one, "little")
        if isinstance(obj, (list, tuple)):
            i = self.as_int(idx)
            if isinstance(i, int):
                try:
                    return obj[i]
                except IndexError:
                    self.raise_("IndexError")
            n = len(obj)
            if self.branch(simp(z3.Or(Z(i) >= n, Z(i) < -n))):
                self.raise_("IndexError")
            for k in range(-n, n):
                if self.branch(Z(i) == k):
                    return obj[k]
            raise PathEnd()
        if isinstance(obj, SObj) and obj.cls.namedtuple:
            i = self.as_int(idx)
            if isinstance(i, int):
                return obj.fields[obj.cls.namedtuple["fields"][i]]
        if isinstance(obj, DictVal):
            return obj.getitem(self, idx)
        if hasattr(obj, "pyvc_getitem"):
            return obj.pyvc_getitem(self, idx)
        if isinstance(obj, SList):
            i = self.as_int(idx)
            if self.branch(simp(z3.Or(Z(i) >= Z(obj.length), Z(i) < -Z(obj.length)))):
                self.raise_("IndexError")
            if R._decide_or_branch(self.ctx, Z(i) < 0):
                i = simp(Z(i) + Z(obj.length))
            return obj.elem(i)
        if isinstance(obj, str) and isinstance(idx, int):
            try:
                return obj[idx]
            except IndexError:
                self.raise_("IndexError")
        if isinstance(obj, (Builtin, ClassRef)):
            return obj  # typing subscripts such as t.List[int]
        raise OutOfReach(f"subscript of {type(obj).__name__}")

    # ------------------------------------------------------------------ comprehensions
    def e_ListComp(self, node, env):
        return self._comp(node, env)

    def e_GeneratorExp(self, node, env):
        return self._comp(node, env)

    def _comp(self, node, env):
        if len(node.generators) != 1:
            raise OutOfReach("nested comprehension")
        g = node.generators[0]
        it = self.eval(g.iter, env)
        if isinstance(it, SList):
            # element-wise map over a list of symbolic length: the element expression is evaluated once on an arbitrary element
            # (so that anything it can raise is raised on this path), the result is the list of the same length whose elements
            # are the expression on the corresponding element
            if g.ifs:
                raise OutOfReach("filtered comprehension over a list of symbolic length")

            def at(j):
                e2 = Env(env.module, env)
                self.assign(g.target, it.elem(j), e2)
                return self.eval(node.elt, e2)

            if not self.ctx.entails(Z(it.length) <= 0):
                j = fresh_int("comp_j")
                self.ctx.assume(z3.And(j >= 0, j < Z(it.length)))
                at(j)
            return SList(it.length, at)
        out = []
        for item in self.iter_values(it):
            e2 = Env(env.module, env)
            self.assign(g.target, item, e2)
            if all(self.truthy(self.eval(c, e2)) for c in g.ifs):
                out.append(self.eval(node.elt, e2))
        return out

    def iter_values(self, v):
        if isinstance(v, (list, tuple)):
            return list(v)
        if isinstance(v, DictVal):
            return [k for k, _ in v.items]
        if isinstance(v, str):
            return list(v)
        if isinstance(v, RangeVal):
            a, b = v.start, v.stop
            if isinstance(a, int) and isinstance(b, int) and isinstance(v.step, int):
                return list(range(a, b, v.step))
            raise OutOfReach("iteration over a symbolic range outside a for statement")
        if isinstance(v, EnumerateVal):
            return [(i + v.start, x) for i, x in enumerate(self.iter_values(v.inner))]
        if isinstance(v, (SBytes, SView)):
            n = self.bytes_len(v)
            if isinstance(n, int):
                return [self.getitem(v, i) for i in range(n)]
            raise OutOfReach("iteration over bytes of symbolic length outside a for statement")
        if isinstance(v, SObj) and v.cls.namedtuple:
            return [v.fields[f] for f in v.cls.namedtuple["fields"]]
        if isinstance(v, MapVal):
            return [self.call_value(v.fn, [x], {}) for x in self.iter_values(v.inner)]
        raise OutOfReach(f"iteration over {type(v).__name__}")

    def e_Await(self, node, env):
        v = self.eval(node.value, env)
        if self.yield_hook is not None:
            self.yield_hook(self)
        if isinstance(v, Coro):
            return v.value
        return v

    def e_Starred(self, node, env):
        raise OutOfReach("starred expression")

    # ======================================================================== calls
    def e_Call(self, node, env):
        fn = self.eval(node.func, env)
        args = []
        for a in node.args:
            if isinstance(a, ast.Starred):
                args.extend(self.iter_values(self.eval(a.value, env)))
            else:
                args.append(self.eval(a, env))
        kwargs = {}
        for k in node.keywords:
            if k.arg is None:
                raise OutOfReach("**kwargs call")
            kwargs[k.arg] = self.eval(k.value, env)
        self._call_node = node
        return self.call_value(fn, args, kwargs)

    def name_of(self, fi):
        """Name used in obligation names for a function: the contract label for the function under verification."""
        if self.top is not None and fi.ref == self.top.ref and self.top_label:
            return self.top_label
        return fi.dotted

    def site(self, short_name):
        """Obligation name prefix for the current call site of an external / builtin callee."""
        caller = self.name_of(self.frames[-1].fi) if self.frames else "<top>"
        return f"{caller}/call[{short_name}#{self.call_ordinal(None, short_name)}]"

    def call_ordinal(self, callee_fi, name=None):
        """Ordinal (source order) of the current call expression among calls to the same name in the caller."""
        node = getattr(self, "_call_node", None)
        if not self.frames or node is None:
            return 0
        name = name or callee_fi.node.name
        calls = []
        for n in ast.walk(self.frames[-1].fi.node):
            if isinstance(n, ast.Call):
                f = n.func
                nm = f.attr if isinstance(f, ast.Attribute) else f.id if isinstance(f, ast.Name) else None
                if nm == name:
                    calls.append(n)
        calls.sort(key=lambda n: (n.lineno, n.col_offset))
        for i, n in enumerate(calls):
            if n is node:
                return i
        return 0

    def call_value(self, fn, args, kwargs):
        if isinstance(fn, FuncRef):
            return self.call_repo(fn.fi, args, kwargs, closure_env=fn.closure_env)
        if isinstance(fn, BoundMethod):
            return self.call_repo(fn.fi, [fn.self_val] + list(args), kwargs)
        if isinstance(fn, ClassRef):
            return self.construct(fn.cls, args, kwargs)
        if isinstance(fn, Lambda):
            e2 = Env(fn.module, fn.env)
            params = [a.arg for a in fn.node.args.args]
            for p, a in zip(params, args):
                e2.vars[p] = a
            return self.eval(fn.node.body, e2)
        if isinstance(fn, Builtin):
            from .builtins import call_builtin

            return call_builtin(self, fn, args, kwargs)
        raise OutOfReach(f"call of {fn!r}")

    def bind_args(self, fi, args, kwargs, env):
        a = fi.node.args
        params = [p.arg for p in a.posonlyargs + a.args]
        defaults = [None] * (len(params) - len(a.defaults)) + list(a.defaults)
        bound = {}
        args = list(args)
        if len(args) > len(params) and a.vararg is None:
            self.raise_("TypeError")
        for p, v in zip(params, args):
            bound[p] = v
        if a.vararg is not None:
            bound[a.vararg.arg] = tuple(args[len(params) :])
        kwonly = [p.arg for p in a.kwonlyargs]
        kwrest = {}
        for k, v in kwargs.items():
            if k in params or k in kwonly:
                if k in bound:
                    self.raise_("TypeError")
                bound[k] = v
            elif a.kwarg is not None:
                kwrest[k] = v
            else:
                self.raise_("TypeError")
        if a.kwarg is not None:
            bound[a.kwarg.arg] = DictVal(list(kwrest.items()))
        for p, d in zip(params, defaults):
            if p not in bound:
                if d is None:
                    self.raise_("TypeError")
                bound[p] = self.eval(d, env)
        for p, d in zip(kwonly, a.kw_defaults):
            if p not in bound:
                if d is None:
                    self.raise_("TypeError")
                bound[p] = self.eval(d, env)
        return bound

    def call_repo(self, fi, args, kwargs, closure_env=None, force_inline=False):
        depth = len(self.frames)
        if depth > MAX_DEPTH:
            raise OutOfReach("call depth")
        for dec in fi.node.decorator_list:
            dn = ast.unparse(dec)
            if dn.split("(")[0] in ("functools.lru_cache", "functools.cache", "lru_cache", "cache", "functools.cached_property", "cached_property"):
                raise FrameEscape(f"@{dn} on {fi.dotted} memoises results across calls: the value returned depends on the call history")
            if dn not in ("classmethod", "staticmethod", "property"):
                raise OutOfReach(f"decorator @{dn} on {fi.dotted} is outside the supported subset (its effect on the function is not modelled)")
        menv = Env(fi.module, closure_env)
        bound = self.bind_args(fi, args, kwargs, menv)
        spec = self.registry.contract_for(fi.dotted)
        is_top = self.top is not None and fi.ref == self.top.ref and depth == 0
        if spec is not None or is_top or not fi.is_straightline_leaf(self.P.repo_callable_names()):
            self.ctx.tick("ticks")  # one step per call, except calls of contract-less straight-line leaf helpers (constant work)
        if TRACE_CALLS:
            import sys, time
            print(f"[{os.getpid()} {time.time() % 1000:7.2f}] {'  ' * depth}{fi.dotted} taken={len(self.ctx.taken)}", file=sys.stderr)
        hook = self.on_call.get(fi.dotted)
        if hook is not None:
            hook(self, bound)
        if spec is not None and not is_top and not force_inline:
            from .values import InlineInstead

            try:
                r = self.registry.apply_contract(self, spec, fi, bound)
                self.contract_calls.add(fi.dotted)
                return Coro(r) if fi.is_async else r
            except InlineInstead:
                pass
        if not is_top:
            self.inlined.add(fi.dotted)
        env = Env(fi.module, closure_env)
        env.vars.update(bound)
        frame = Frame(fi, env, depth)
        self.frames.append(frame)
        try:
            self.exec_block(fi.node.body, env)
            result = None
        except ReturnEx as r:
            result = r.value
        finally:
            self.frames.pop()
        return Coro(result) if fi.is_async else result

    # ------------------------------------------------------------------ construction
    def construct(self, cls, args, kwargs):
        if cls.enum:
            if len(args) != 1:
                self.raise_("TypeError")
            return self.make_enum(cls, args[0])
        if cls.is_exception:
            return self.make_repo_exc(cls, tuple(args))
        if cls.namedtuple:
            names = cls.namedtuple["fields"]
            fields = {}
            for n, v in zip(names, args):
                fields[n] = v
            for k, v in kwargs.items():
                if k not in names or k in fields:
                    self.raise_("TypeError")
                fields[k] = v
            for n in names:
                if n not in fields:
                    if n in cls.namedtuple["defaults"]:
                        fields[n] = self.from_dump(cls.namedtuple["defaults"][n])
                    else:
                        self.raise_("TypeError")
            return SObj(cls, fields)
        init = self.P.method(cls, "__init__")
        if cls.dataclass and init is None:
            fields = {}
            init_fields = [f for f in cls.dataclass["fields"] if f["init"]]
            if len(args) > len(init_fields):
                self.raise_("TypeError")
            for f, v in zip(init_fields, args):
                fields[f["name"]] = v
            for k, v in kwargs.items():
                if k not in [f["name"] for f in init_fields] or k in fields:
                    self.raise_("TypeError")
                fields[k] = v
            for f in cls.dataclass["fields"]:
                if f["name"] not in fields:
                    if f["has_default"]:
                        fields[f["name"]] = self.from_dump(f["default"])
                    elif f["has_factory"]:
                        raise OutOfReach("dataclass default_factory")
                    else:
                        self.raise_("TypeError")
            return SObj(cls, fields)
        obj = SObj(cls, {})
        if init is not None:
            self.call_repo(init[0], [obj] + list(args), kwargs)
        elif args or kwargs:
            self.raise_("TypeError")
        return obj

    def make_enum(self, cls, v):
        if isinstance(v, SEnum):
            v = v.value
        members = [(n, self.from_dump(d)) for n, d in cls.enum["members"]]
        if cls.enum["int"]:
            v = self.as_int(v)
            if isinstance(v, int):
                for n, mv in members:
                    if mv == v:
                        return SEnum(cls, v, n)
                if cls.enum["flag"]:
                    return SEnum(cls, v)
                if cls.enum["custom_missing"]:
                    return SEnum(cls, v, int_value=None if cls.enum.get("missing_keeps_int", True) else 0)
                self.raise_("ValueError")
            if cls.enum["flag"]:
                if self.branch(Z(v) < 0):
                    raise OutOfReach("negative flag value")
                return SEnum(cls, v)
            if cls.enum["custom_missing"]:
                if cls.enum.get("missing_keeps_int", True):
                    return SEnum(cls, v)
                vals = sorted({mv for _, mv in members})
                is_member = self._or([simp(Z(v) == m) for m in vals])
                return SEnum(cls, v, int_value=simp(z3.If(Z(is_member), Z(v), 0)))
            vals = sorted({mv for _, mv in members})
            is_member = self._or([simp(Z(v) == m) for m in vals])
            if not self.branch(is_member):
                self.raise_("ValueError")
            return SEnum(cls, v)
        for n, mv in members:
            if self.truthy(self.eq(mv, v)):
                return SEnum(cls, mv, n)
        self.raise_("ValueError")

    # ======================================================================== statements
    def exec_block(self, body, env):
        for st in body:
            self.exec(st, env)

    def exec(self, node, env):
        m = getattr(self, "s_" + type(node).__name__, None)
        if m is None:
            raise OutOfReach(f"statement {type(node).__name__}")
        if self.frames:
            self.frames[-1].lineno = node.lineno
        return m(node, env)

    def s_Expr(self, node, env):
        if isinstance(node.value, ast.Constant):
            return
        self.eval(node.value, env)

    def s_Pass(self, node, env):
        pass

    def s_Return(self, node, env):
        raise ReturnEx(self.eval(node.value, env) if node.value is not None else None)

    def s_Break(self, node, env):
        raise BreakEx()

    def s_Continue(self, node, env):
        raise ContinueEx()

    def s_Assign(self, node, env):
        v = self.eval(node.value, env)
        for t in node.targets:
            self.assign(t, v, env)

    def s_AnnAssign(self, node, env):
        if node.value is not None:
            self.assign(node.target, self.eval(node.value, env), env)

    def s_AugAssign(self, node, env):
        t = node.target
        if isinstance(t, ast.Name):
            cur = self.lookup_name(t.id, env)
            if isinstance(cur, SBytes) and cur.kind == "bytearray" and isinstance(node.op, ast.Add):
                cur.rope = cur.rope + self.rope_of(self.eval(node.value, env))
                return
            env.vars[t.id] = self.binop(node.op, cur, self.eval(node.value, env))
            return
        if isinstance(t, ast.Attribute):
            obj = self.eval(t.value, env)
            cur = self.getattr(obj, t.attr)
            if isinstance(cur, SBytes) and cur.kind == "bytearray" and isinstance(node.op, ast.Add):
                cur.rope = cur.rope + self.rope_of(self.eval(node.value, env))
                return
            self.setattr(obj, t.attr, self.binop(node.op, cur, self.eval(node.value, env)))
            return
        if isinstance(t, ast.Subscript) and not isinstance(t.slice, ast.Slice):
            obj = self.eval(t.value, env)
            idx = self.eval(t.slice, env)
            cur = self.getitem(obj, idx)
            self.setitem(obj, idx, self.binop(node.op, cur, self.eval(node.value, env)))
            return
        raise OutOfReach("augmented assignment target")

    def assign(self, target, v, env):
        if isinstance(target, ast.Name):
            env.vars[target.id] = v
        elif isinstance(target, (ast.Tuple, ast.List)):
            items = self.iter_values(v)
            if len(items) != len(target.elts):
                self.raise_("ValueError")
            for t, x in zip(target.elts, items):
                self.assign(t, x, env)
        elif isinstance(target, ast.Attribute):
            self.setattr(self.eval(target.value, env), target.attr, v)
        elif isinstance(target, ast.Subscript):
            obj = self.eval(target.value, env)
            if isinstance(target.slice, ast.Slice):
                lo = self.eval(target.slice.lower, env) if target.slice.lower else None
                hi = self.eval(target.slice.upper, env) if target.slice.upper else None
                self.setslice(obj, lo, hi, v)
            else:
                self.setitem(obj, self.eval(target.slice, env), v)
        else:
            raise OutOfReach("assignment target")

    def setattr(self, obj, name, v):
        if isinstance(obj, SObj):
            if obj.cls.dataclass and obj.cls.dataclass["frozen"]:
                self.raise_("AttributeError")  # dataclasses.FrozenInstanceError
            obj.fields[name] = v
            return
        raise OutOfReach(f"setattr on {type(obj).__name__}")

    def setitem(self, obj, idx, v):
        if isinstance(obj, SBytes) and obj.kind == "bytearray":
            i = self.as_int(idx)
            n = obj.rope.length()
            val = self.as_int(v)
            if self.branch(simp(z3.Or(Z(i) >= Z(n), Z(i) < -Z(n)))):
                self.raise_("IndexError")
            if self.branch(simp(z3.Or(Z(val) < 0, Z(val) > 255))):
                self.raise_("ValueError")
            if R._decide_or_branch(self.ctx, Z(i) < 0):
                i = R._add(i, n)
            left, rest = R.split_at(self.ctx, obj.rope, i)
            _, right = R.split_at(self.ctx, rest, 1)
            obj.rope = left + R.Rope([R.IntSeg(val, 1, "little", True)]) + right
            return
        if isinstance(obj, list):
            i = self.as_int(idx)
            if isinstance(i, int):
                try:
                    obj[i] = v
                    return
                except IndexError:
                    self.raise_("IndexError")
            raise OutOfReach("list store at a symbolic index")
        if isinstance(obj, DictVal):
            obj.setitem(self, idx, v)
            return
        if hasattr(obj, "pyvc_setitem"):
            obj.pyvc_setitem(self, idx, v)
            return
        raise OutOfReach(f"item assignment on {type(obj).__name__}")

    def setslice(self, obj, lo, hi, v):
        data = self.rope_of(v)
        if isinstance(obj, SView):
            n = self.bytes_len(obj)
            a = R.clamp_index(self.ctx, None if lo is None else self.as_int(lo), n, 0)
            b = R.clamp_index(self.ctx, None if hi is None else self.as_int(hi), n, n)
            if R._decide_or_branch(self.ctx, Z(b) < Z(a)):
                b = a
            width = R._sub(b, a)
            dl = data.length()
            if not R._same(width, dl):
                if not R._decide_or_branch(self.ctx, Z(width) == Z(dl)):
                    self.raise_("ValueError")
            base = obj.base
            s = R._add(obj.start, a)
            e = R._add(obj.start, b)
            left, rest = R.split_at(self.ctx, base.rope, s)
            _, right = R.split_at(self.ctx, rest, R._sub(e, s))
            base.rope = left + data + right
            return
        if isinstance(obj, SBytes) and obj.kind == "bytearray":
            n = obj.rope.length()
            a = R.clamp_index(self.ctx, None if lo is None else self.as_int(lo), n, 0)
            b = R.clamp_index(self.ctx, None if hi is None else self.as_int(hi), n, n)
            if R._decide_or_branch(self.ctx, Z(b) < Z(a)):
                b = a
            left, rest = R.split_at(self.ctx, obj.rope, a)
            _, right = R.split_at(self.ctx, rest, R._sub(b, a))
            obj.rope = left + data + right
            return
        raise OutOfReach(f"slice assignment on {type(obj).__name__}")

    def s_If(self, node, env):
        if self.truthy(self.eval(node.test, env)):
            self.exec_block(node.body, env)
        else:
            self.exec_block(node.orelse, env)

    def s_Assert(self, node, env):
        if not self.truthy(self.eval(node.test, env)):
            self.raise_("AssertionError")

    def s_Raise(self, node, env):
        if node.exc is None:
            if self.exc_stack:
                raise self.exc_stack[-1]
            raise OutOfReach("bare raise outside an except block")
        v = self.eval(node.exc, env)
        if isinstance(v, ClassRef) and v.cls.is_exception:
            v = self.make_repo_exc(v.cls, ())
        if isinstance(v, Builtin) and hasattr(_pybuiltins, v.name):
            v = builtin_exc(v.name)
        if not isinstance(v, SExc):
            raise OutOfReach(f"raise of {v!r}")
        raise PyRaise(v)

    def s_FunctionDef(self, node, env):
        fr = self.frames[-1]
        q = f"{fr.fi.qualname}.<locals>.{node.name}"
        fi = self.P.funcs.get(f"{fr.fi.module}:{q}")
        if fi is None:
            raise OutOfReach("nested function not indexed")
        env.vars[node.name] = FuncRef(fi, closure_env=env)

    def s_With(self, node, env):
        self._with(node, env, is_async=False)

    def s_AsyncWith(self, node, env):
        self._with(node, env, is_async=True)

    def _with(self, node, env, is_async):
        mgrs = []
        for item in node.items:
            mgr = self.eval(item.context_expr, env)
            enter = "__aenter__" if is_async else "__enter__"
            v = self.call_method(mgr, enter, [], {})
            if isinstance(v, Coro):
                v = v.value
            if item.optional_vars is not None:
                self.assign(item.optional_vars, v, env)
            mgrs.append(mgr)
        exit_name = "__aexit__" if is_async else "__exit__"
        try:
            self.exec_block(node.body, env)
        except (ReturnEx, BreakEx, ContinueEx):
            for mgr in reversed(mgrs):
                self.call_method(mgr, exit_name, [None, None, None], {})
            raise
        except PyRaise as e:
            for mgr in reversed(mgrs):
                r = self.call_method(mgr, exit_name, [Builtin("exc_type"), e.exc, None], {})
                if isinstance(r, Coro):
                    r = r.value
                if r is not None and self.truthy(r):
                    raise OutOfReach("context manager suppressing an exception")
            raise
        for mgr in reversed(mgrs):
            self.call_method(mgr, exit_name, [None, None, None], {})

    def call_method(self, obj, name, args, kwargs):
        return self.call_value(self.getattr(obj, name), args, kwargs)

    def _exc_matches(self, exc, tv):
        """does the (symbolic-engine) exception object match the evaluated `except` type expression?"""
        if isinstance(tv, tuple):
            return any(self._exc_matches(exc, t) for t in tv)
        if isinstance(tv, ClassRef):
            return exc.isinstance_of(tv.cls.ref) or exc.isinstance_of(tv.cls.name) or exc.type_name == tv.cls.ref
        if isinstance(tv, Builtin):
            name = tv.name
            short = name.split(".")[-1]
            return exc.isinstance_of(name) or exc.isinstance_of(short) or exc.type_name.split(":")[-1].split(".")[-1] == short
        raise OutOfReach(f"except clause with a type the executor cannot name: {tv!r}")

    def s_Try(self, node, env):
        """try / except / else / finally with Python's semantics for exceptions raised by the interpreted program. Engine
        signals (end of path, out of reach) pass through untouched."""
        if getattr(node, "handlers", None) is None:
            raise OutOfReach("try statement form")

        def run_finally():
            if node.finalbody:
                self.exec_block(node.finalbody, env)

        try:
            try:
                self.exec_block(node.body, env)
            except PyRaise as e:
                handled = False
                for h in node.handlers:
                    if h.type is None or self._exc_matches(e.exc, self.eval(h.type, env)):
                        if h.name:
                            env.vars[h.name] = e.exc
                        self.exc_stack.append(e)
                        try:
                            self.exec_block(h.body, env)
                        finally:
                            self.exc_stack.pop()
                        handled = True
                        break
                if not handled:
                    raise
            else:
                if node.orelse:
                    self.exec_block(node.orelse, env)
        except (PyRaise, ReturnEx, BreakEx, ContinueEx):
            run_finally()  # a raise / return / break / continue inside finally replaces the pending one, as in Python
            raise
        run_finally()


    # ------------------------------------------------------------------ loops
    def s_While(self, node, env):
        from .loops import exec_while

        exec_while(self, node, env)

    def s_For(self, node, env):
        from .loops import exec_for

        exec_for(self, node, env)


# ============================================================================ container values


class DictVal:
    """dict with possibly symbolic keys: association list with forking lookups."""

    def __init__(self, items=()):
        self.items = list(items)

    def find(self, I, key):
        for i, (k, _) in enumerate(self.items):
            if I.truthy(I.eq(k, key)):
                return i
        return None

    def getitem(self, I, key):
        i = self.find(I, key)
        if i is None:
            I.raise_("KeyError")
        return self.items[i][1]

    def get(self, I, key, default=None):
        i = self.find(I, key)
        return default if i is None else self.items[i][1]

    def setitem(self, I, key, v):
        i = self.find(I, key)
        if i is None:
            self.items.append((key, v))
        else:
            self.items[i] = (self.items[i][0], v)

    def setdefault(self, I, key, default=None):
        i = self.find(I, key)
        if i is None:
            self.items.append((key, default))
            return default
        return self.items[i][1]


class RangeVal:
    def __init__(self, start, stop, step=1):
        self.start, self.stop, self.step = start, stop, step


class EnumerateVal:
    def __init__(self, inner, start=0):
        self.inner = inner
        self.start = start


class MapVal:
    def __init__(self, fn, inner):
        self.fn = fn
        self.inner = inner
