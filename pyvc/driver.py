"""Verification driver: explores all paths of a function under contract, aggregates obligations."""
from __future__ import annotations

import os
import time
import traceback

import z3

from .contracts import ContractCtx, _conj
from .interp import Interp
from .path import Obligation, PathCtx
from .smt import STATS, Z, simp
from .values import EngineError, OutOfReach, PartialReach, PathEnd, PyRaise, ReturnEx

MAX_PATHS = 20000


class FunctionResult:
    def __init__(self, target):
        self.target = target
        self.obligations: dict[str, dict] = {}  # name -> aggregated record
        self.paths = 0
        self.out_of_reach = None
        self.error = None
        self.covers: set[str] = set()
        self.expected_covers: set[str] = set()
        self.inlined: set[str] = set()
        self.contract_calls: set[str] = set()
        self.extern_calls: set[str] = set()
        self.wall_s = 0.0
        self.solver_s = 0.0
        self.queries = 0
        self.file_sha = None
        self.ast_hash = None
        self.samples = []
        self.replay_meta = {}

    def add(self, ob: Obligation, path_id):
        rec = self.obligations.setdefault(
            ob.name, {"name": ob.name, "status": "discharged", "instances": 0, "ms": 0.0, "backend": "z3-5.1", "model": None, "detail": ""}
        )
        rec["instances"] += 1
        rec["ms"] += ob.ms
        if getattr(ob, "second", None):
            sec = rec.setdefault("second", {})
            for be, verdict in ob.second.items():
                sec.setdefault(be, {}).setdefault(verdict, 0)
                sec[be][verdict] += 1
        order = {"discharged": 0, "undischarged": 1, "refuted": 2}
        if order[ob.status] > order[rec["status"]]:
            rec["status"] = ob.status
            rec["detail"] = ob.detail
            rec["path"] = path_id
            if ob.model is not None:
                rec["model"] = model_to_dict(ob.model)
            rec["inputs"] = ob.inputs
        if ob.formula is not None and "formula" not in rec:
            rec["formula"] = ob.formula

    def to_json(self):
        return {
            "target": self.target,
            "paths": self.paths,
            "out_of_reach": self.out_of_reach,
            "error": self.error,
            "covers": sorted(self.covers),
            "missing_covers": sorted(self.expected_covers - self.covers),
            "inlined": sorted(self.inlined),
            "contract_calls": sorted(self.contract_calls),
            "extern_calls": sorted(self.extern_calls),
            "wall_s": round(self.wall_s, 3),
            "solver_s": round(self.solver_s, 3),
            "queries": self.queries,
            "file_sha": self.file_sha,
            "ast_hash": self.ast_hash,
            "obligations": [
                {k: v for k, v in rec.items() if k != "formula"} for rec in sorted(self.obligations.values(), key=lambda r: r["name"])
            ],
            "samples": self.samples,
            "replay_meta": self.replay_meta,
            "reach_inputs": getattr(self, "reach_inputs", None),
        }


def model_to_dict(m, limit=80):
    out = {}
    for d in m.decls():
        if d.arity() == 0:
            try:
                out[d.name()] = str(m[d])
            except Exception:
                pass
        if len(out) >= limit:
            break
    return out


def merge_results(parts):
    """Merge the results of sub-trees of one function (explored by different processes)."""
    res = parts[0]
    for p in parts[1:]:
        for name, rec in p.obligations.items():
            cur = res.obligations.get(name)
            if cur is None:
                res.obligations[name] = rec
                continue
            order = {"discharged": 0, "undischarged": 1, "refuted": 2}
            cur["instances"] += rec["instances"]
            cur["ms"] += rec["ms"]
            for be, vs in (rec.get("second") or {}).items():
                tgt = cur.setdefault("second", {}).setdefault(be, {})
                for verdict, n in vs.items():
                    tgt[verdict] = tgt.get(verdict, 0) + n
            if order[rec["status"]] > order[cur["status"]]:
                for k in ("status", "detail", "model", "inputs", "path"):
                    cur[k] = rec.get(k)
            if "formula" in rec and "formula" not in cur:
                cur["formula"] = rec["formula"]
        res.paths += p.paths
        res.covers |= p.covers
        res.expected_covers |= p.expected_covers
        res.inlined |= p.inlined
        res.contract_calls |= p.contract_calls
        res.extern_calls |= p.extern_calls
        res.solver_s += p.solver_s
        res.queries += p.queries
        res.wall_s = max(res.wall_s, p.wall_s)
        res.out_of_reach = res.out_of_reach or p.out_of_reach
        res.error = res.error or p.error
        res.replay_meta = res.replay_meta or p.replay_meta
        if getattr(p, "reach_inputs", None) is not None and getattr(res, "reach_inputs", None) is None:
            res.reach_inputs = p.reach_inputs
        sm = getattr(res, "smt2", None) or {}
        sm.update(getattr(p, "smt2", {}) or {})
        res.smt2 = sm
    return res


def verify_function(program, registry, spec, opts=None, work=None, expand_to=None) -> FunctionResult:
    """Explore the paths below the decision prefixes in `work` (default: the whole function). With expand_to=N the
    exploration is breadth-first and stops once N prefixes are pending; they are returned in result.pending so that
    the sub-trees can be explored by other processes."""
    opts = opts or {}
    res = FunctionResult(spec.label)
    res.pending = []
    is_lemma = spec.target.startswith("lemma:")
    fi = None if is_lemma else program.find_func(spec.target)
    t0 = time.time()
    q0, s0 = STATS.queries, STATS.solver_s
    if fi is None and not is_lemma:
        res.out_of_reach = f"function {spec.target} not found in the working tree (contract does not bind)"
        return res
    res.file_sha = program.file_sha.get(fi.module) if fi is not None else None
    res.ast_hash = fi.ast_hash() if fi is not None else None
    from .values import FUNCTION_DEADLINE

    from . import forker as _forker

    if work is None:
        FUNCTION_DEADLINE[0] = time.time() + float(opts.get("function_budget_s", 900))
        _forker.new_path_counter()
    work = [[]] if work is None else list(work)
    partial_left, keep_exploring, partial_deadline = 100, False, None  # exploration after a PartialReach (refutations only)
    seen = 0
    while work:
        if FUNCTION_DEADLINE[0] is not None and time.time() > FUNCTION_DEADLINE[0]:
            res.out_of_reach = (f"exploring this function took more than {float(opts.get('function_budget_s', 900)):.0f} s (engine budget: the number of paths through the "
                                "current code is beyond what the executor can enumerate, e.g. a loop that is unrolled because no invariant is attached to it)")
            break
        if expand_to is not None and len(work) >= expand_to:
            res.pending = work
            break
        if opts.get("budget_paths") and seen >= opts["budget_paths"]:
            res.pending = work  # hand the rest back for redistribution
            break
        decisions = work.pop(0) if expand_to is not None else work.pop()
        seen += 1
        if _forker.count_path() > int(opts.get("function_max_paths", 60000)):
            res.out_of_reach = (f"more than {int(opts.get('function_max_paths', 60000))} paths through this function (engine budget; typically a loop that is "
                                "unrolled because no invariant is attached to it and that forks at every iteration)")
            break
        if seen > opts.get("max_paths", MAX_PATHS):
            res.out_of_reach = f"more than {MAX_PATHS} paths"
            break
        ctx = PathCtx(
            decisions,
            axioms=registry.axioms,
            prove_timeout_ms=opts.get("prove_timeout_ms", 10000),
            feas_timeout_ms=opts.get("feas_timeout_ms", 3000),
            keep_formulas=opts.get("keep_formulas", False),
        )
        I = Interp(program, registry, ctx, top=fi)
        I.top_label = spec.label
        from .values import PATH_BUDGET_S, FrameEscape, PathBudget, arm_path_timer, disarm_path_timer

        PATH_BUDGET_S[0] = float(opts.get("path_budget_s", 300))
        arm_path_timer()
        try:
            try:
                run_path(I, ctx, spec, fi, res)
            finally:
                disarm_path_timer()
        except PathBudget as e:
            if os.environ.get("PYVC_TRACE_SLOW"):
                print(f"[path budget] {spec.label}: engine was at {e}", flush=True)
            # never a verdict by itself: the function's obligations on this path could not be generated in time
            res.out_of_reach = f"exploring one path took more than {PATH_BUDGET_S[0]:.0f} s (engine budget; the code on this path is beyond what the rope/arith normaliser handles)"
            work = []  # the remaining paths of this function share the prefix that was too expensive: stop here
        except PathEnd:
            pass
        except FrameEscape as e:
            ob = Obligation(f"{spec.label}/frame.state-outside-the-contract", "refuted", str(e))
            try:  # inputs that drive the real code to this point (replayed against the contract's expected value)
                r_, m_ = ctx.solver.model()
                if m_ is not None and ctx.concretizer is not None:
                    ob.inputs = ctx.concretizer(m_)
            except Exception:
                pass
            ctx.obligations.append(ob)
        except OutOfReach as e:
            res.out_of_reach = res.out_of_reach or str(e)
            if isinstance(e, PartialReach) and partial_left > 0:
                partial_left -= 1
                keep_exploring = True
                partial_deadline = partial_deadline or time.time() + 60
            try:  # inputs that drive the real code to the point the verifier could not follow
                r_, m_ = ctx.solver.model()
                if m_ is not None and ctx.concretizer is not None:
                    res.reach_inputs = ctx.concretizer(m_)
            except Exception:
                pass
        except EngineError as e:
            # a value or operation the engine has no model for: the function has left the verifier's reach (not a crash)
            res.out_of_reach = "unmodelled operation: " + str(e)
        except RecursionError:
            res.out_of_reach = "recursion depth"
        except Exception as e:  # engine crash: never a verdict
            res.error = f"{type(e).__name__}: {e}\n" + traceback.format_exc()[-2500:]
        if ctx.forked_child:
            # this process was forked at a branch inside the path it just finished: it keeps only what it explores itself
            keep_meta = (res.file_sha, res.ast_hash, res.replay_meta, res.expected_covers)
            out_of_reach, error, reach_inputs = res.out_of_reach, res.error, getattr(res, "reach_inputs", None)
            res = FunctionResult(spec.label)
            res.pending = []
            res.file_sha, res.ast_hash, res.replay_meta, res.expected_covers = keep_meta
            res.out_of_reach, res.error = out_of_reach, error
            if reach_inputs is not None:
                res.reach_inputs = reach_inputs
            work = []
            seen = 1
            t0 = time.time()
            q0, s0 = STATS.queries, STATS.solver_s
        for ob in ctx.obligations:
            res.add(ob, seen)
        if I.mutable_globals:
            ctx.obligations.append(Obligation(f"{spec.label}/frame.no-mutable-module-state", "refuted",
                                              "depends on module-level mutable state (results may depend on the call history): " + ", ".join(sorted(I.mutable_globals))))
            res.add(ctx.obligations[-1], seen)
        elif fi is not None:
            res.add(Obligation(f"{spec.label}/frame.no-mutable-module-state", "discharged"), seen)
        res.covers |= ctx.covers
        res.inlined |= I.inlined
        res.contract_calls |= I.contract_calls
        res.extern_calls |= I.extern_calls
        work.extend(ctx.pending)
        if res.error or (res.out_of_reach and not keep_exploring):
            break
        if res.out_of_reach and partial_deadline and time.time() > partial_deadline:
            break
        keep_exploring = bool(res.out_of_reach) and keep_exploring
    res.paths = seen
    res.wall_s = time.time() - t0
    res.queries = STATS.queries - q0
    res.solver_s = STATS.solver_s - s0
    from . import forker

    if forker.ENABLED or forker.IS_CHILD:
        parts = [res]
        for child in forker.collect():
            if child is None:
                res.error = res.error or "a forked explorer process died without a result"
            else:
                parts.append(child)
        if len(parts) > 1:
            res = merge_results(parts)
        if forker.IS_CHILD:
            strip_formulas(res)
            forker.child_exit(res)
    return res


def strip_formulas(r):
    """Make a FunctionResult picklable: SMT-LIB2 text samples instead of z3 formulas."""
    r.smt2 = getattr(r, "smt2", {})
    for name, rec in r.obligations.items():
        f = rec.pop("formula", None)
        if f is not None and len(r.smt2) < 2:
            s = z3.Solver()
            for x in f:
                s.add(x)
            r.smt2[name] = s.to_smt2()[:6000]
    return r


def run_path(I: Interp, ctx: PathCtx, spec, fi, res: FunctionResult):
    c = ContractCtx("verify", I, fi, None)
    if fi is None:  # a lemma: assumptions and goals only
        c.label = spec.label
        spec.fn(c)
        ctx.cover("pre.sat")
        res.expected_covers.add("pre.sat")
        return
    spec.fn(c)
    base = spec.label
    from .replay_driver import concretize_call

    from .replay_driver import concretize as _conc

    def _concretizer(m):
        out = concretize_call(I, c, m)
        if c._has_returns:
            out["expected"] = _conc(I, c._returns, m)
        return out

    ctx.concretizer = _concretizer
    meta = dict(c._replay_meta)
    if c._raises_only is not None and "allowed" not in meta:
        meta["allowed"] = sorted(c._raises_only)
    res.replay_meta = meta
    for label, cond in c._requires:
        ctx.assume(cond)
    if not ctx.feasible():
        raise PathEnd()
    ctx.cover("pre.sat")
    res.expected_covers.add("pre.sat")
    if not c._no_return:
        res.expected_covers.add("exit.return")
    for exc, when, label in c._raises:
        if when is not None and label != "optional":
            res.expected_covers.add(f"exit.raise.{exc}")
    res.expected_covers |= set(c._expect_covers)
    ghost0 = dict(ctx.ghost)
    try:
        kwargs = dict(c.args)
        result = I.call_repo(fi, [], kwargs)
        from .values import Coro

        if isinstance(result, Coro):
            result = result.value
    except PyRaise as e:
        try:
            _check_exceptional(I, ctx, c, base, e.exc, ghost0)
        except PyRaise as e2:
            _spec_failed(ctx, base, e2)
        return
    try:
        _check_normal(I, ctx, c, base, result, ghost0)
    except PyRaise as e2:
        _spec_failed(ctx, base, e2)


def _spec_failed(ctx, base, e):
    """A postcondition could not even be evaluated on this path: the reference computation inside the contract (which runs repo
    code, e.g. a decoder applied to the bytes the function produced) raised. The clause is not accepted."""
    ctx.prove(f"{base}/post.evaluable", False, detail=f"evaluating the postcondition raised {e.exc.type_name} at {getattr(e.exc, 'origin', '?')}: the result does not have the specified form")


def _check_normal(I, ctx, c, base, result, ghost0):
    if not ctx.feasible():
        raise PathEnd()
    ctx.cover("exit.return")
    for exc, when, label in c._raises:
        if when is not None:
            ctx.prove(f"{base}/raises.{exc}.{label or 'when'}", I._not(when), detail="returned normally although the raise condition holds")
    if c._has_returns:
        ctx.prove(f"{base}/post.result", I.eq(result, c._returns), detail="result differs from the specified value")
    def prove_all(name, v):
        # a list of clauses is proved as one obligation; when that fails the clauses are re-proved one by one so that the
        # report names the clause (post.<label>#<k>)
        if isinstance(v, (list, tuple)) and len(v) > 1:
            if ctx.entails(_conj(I, list(v))):
                ctx.prove(name, True)
                return
            for k, item in enumerate(v):
                if not ctx.entails(_conj(I, item)):
                    ctx.prove(f"{name}#{k}", _conj(I, item))
            ctx.prove(name, _conj(I, list(v)))
        else:
            ctx.prove(name, _conj(I, v))

    for label, fn in c._ensures:
        prove_all(f"{base}/post.{label}", fn(result))
    for label, thunk in c._posts:
        prove_all(f"{base}/post.{label}", thunk())
    for counter, bound in c._ghost_bounds:
        cur = ctx.ghost.get(counter, 0)
        ctx.prove(f"{base}/ghost.{counter}", simp(Z(cur) - Z(ghost0.get(counter, 0)) <= Z(bound)))


def _check_exceptional(I, ctx, c, base, exc, ghost0=None):
    if not ctx.feasible():
        raise PathEnd()
    for counter, bound in c._ghost_bounds_exc:
        cur = ctx.ghost.get(counter, 0)
        ctx.prove(f"{base}/ghost.{counter}.on-raise", simp(Z(cur) - Z((ghost0 or {}).get(counter, 0)) <= Z(bound)), detail=f"work done before raising {exc.type_name.split(':')[-1]} exceeds the bound")
    tname = exc.type_name
    short = tname.split(":")[-1]
    ctx.cover(f"exit.raise.{short}")
    for n in exc.mro:
        ctx.cover(f"exit.raise.{n.split(':')[-1]}")
    for label, thunk in c._posts_exc:
        ctx.prove(f"{base}/post-exc.{label}", _conj(I, thunk(exc)), detail=f"on exit with {short}")
    matching = [(e, w, l) for e, w, l in c._raises if exc.isinstance_of(e) or short == e or exc.isinstance_of(e.split(".")[-1])]
    allowed = c._raises_only
    if allowed is not None:
        ok = any(exc.isinstance_of(a) or short == a for a in allowed)
        ctx.prove(f"{base}/raises.only", ok, detail=f"{short} escapes (raised at {getattr(exc, 'origin', '?')}); allowed: {sorted(allowed)}")
        if not ok:
            return
    if matching:
        if any(w is None for _, w, _ in matching):
            return
        ctx.prove(f"{base}/raises.{short}.justified", I._or([w for _, w, _ in matching]), detail=f"{short} raised outside its specified condition")
    elif allowed is None:
        ctx.prove(f"{base}/raises.unexpected", False, detail=f"{short} raised but the contract names no exception")
