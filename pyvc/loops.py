"""Loops (DESIGN 2.5): exact unrolling when the iteration space is concrete, otherwise inductive
invariant + variant from the sidecar, keyed by (function dotted name, loop ordinal in source order)."""
from __future__ import annotations

import ast

import z3

from . import rope as R
from .smt import Z, blen, conc_int, fresh_bool, fresh_bytes, fresh_int, is_bool_term, is_int_term, simp
from .values import BreakEx as BreakLoop, ContinueEx as ContinueLoop, OutOfReach, PathEnd, PyRaise, SBytes, SList, SObj, SView


def _loop_key(I, node):
    fr = I.frames[-1]
    # ordinal of this loop among all loops of the function in source order
    loops = [n for n in ast.walk(fr.fi.node) if isinstance(n, (ast.For, ast.While))]
    loops.sort(key=lambda n: (n.lineno, n.col_offset))
    # exclude loops of nested function definitions
    k = loops.index(node)
    return fr.fi.dotted, k


def assigned_names(body):
    """Names assigned in a loop body (targets of =, +=, for, with-as), and receivers mutated through
    known mutator methods / subscript stores."""
    names = set()
    mutated = set()
    resized = set()

    class V(ast.NodeVisitor):
        def visit_Assign(self, n):
            for t in n.targets:
                self._t(t)
            self.generic_visit(n)

        def visit_AugAssign(self, n):
            self._t(n.target)
            self.generic_visit(n)

        def visit_AnnAssign(self, n):
            self._t(n.target)
            self.generic_visit(n)

        def visit_For(self, n):
            self._t(n.target)
            self.generic_visit(n)

        def visit_With(self, n):
            for i in n.items:
                if i.optional_vars is not None:
                    self._t(i.optional_vars)
            self.generic_visit(n)

        def visit_Call(self, n):
            f = n.func
            if isinstance(f, ast.Attribute) and f.attr in ("append", "extend", "reverse", "setdefault", "pop", "insert", "update"):
                base = f.value
                while isinstance(base, (ast.Attribute, ast.Subscript)):
                    base = base.value
                if isinstance(base, ast.Name):
                    mutated.add(base.id)
                    resized.add(base.id)
            self.generic_visit(n)

        def visit_FunctionDef(self, n):
            pass

        def visit_Lambda(self, n):
            pass

        def _t(self, t):
            if isinstance(t, ast.Name):
                names.add(t.id)
            elif isinstance(t, (ast.Tuple, ast.List)):
                for e in t.elts:
                    self._t(e)
            elif isinstance(t, (ast.Subscript, ast.Attribute)):
                base = t.value
                while isinstance(base, (ast.Attribute, ast.Subscript)):
                    base = base.value
                if isinstance(base, ast.Name):
                    mutated.add(base.id)

    v = V()
    for st in body:
        v.visit(st)
    assigned_names.resized = resized
    return names, mutated


class Snapshot:
    """Values of the locals and ghost counters at loop entry (s.at_entry.<name>)."""

    def __init__(self, values, rename=None):
        object.__setattr__(self, "_values", values)
        object.__setattr__(self, "_rename", rename or {})

    def __getattr__(self, name):
        try:
            return self._values[name]
        except KeyError:
            new = self._rename.get(name) if self._rename else None
            if new is not None and new in self._values:
                return self._values[new]
            raise OutOfReach(f"the loop annotation refers to the local variable '{name}', which the current code of the function does not have")


class LoopState:
    """Read access to the locals of the frame (and ghost counters) for invariant / variant lambdas."""

    def __init__(self, I, env, extra=None, entry=None):
        object.__setattr__(self, "_I", I)
        object.__setattr__(self, "_env", env)
        object.__setattr__(self, "_extra", extra or {})
        object.__setattr__(self, "at_entry", entry)

    def __getattr__(self, name):
        if name in self._extra:
            return self._extra[name]
        found, v = self._env.lookup(name)
        if found:
            return v
        if name in self._I.ctx.ghost:
            return self._I.ctx.ghost[name]
        new = self._renamed(name)
        if new is not None:
            found, v = self._env.lookup(new)
            if found:
                return v
        raise OutOfReach(f"the loop annotation refers to the local variable '{name}', which the current code of the function does not have")

    def _renamed(self, name):
        from .program import rename_map

        fr = self._I.frames[-1] if self._I.frames else None
        return rename_map(fr.fi).get(name) if fr is not None else None

    def has(self, name):
        if name in self._extra or self._env.lookup(name)[0]:
            return True
        new = self._renamed(name)
        return new is not None and self._env.lookup(new)[0]


def havoc_like(I, v, name):
    """Fresh symbolic value of the same shape as v."""
    if isinstance(v, bool) or is_bool_term(v):
        return fresh_bool(name)
    if isinstance(v, int) or is_int_term(v):
        return fresh_int(name)
    if isinstance(v, SView):
        # a view into a bytearray: fresh bounds within the base
        a, b = fresh_int(name + "_lo"), fresh_int(name + "_hi")
        n = v.base.rope.length()
        I.ctx.assume(z3.And(a >= 0, a <= b, b <= Z(n)))
        return SView(v.base, a, b)
    if isinstance(v, SBytes):
        t = fresh_bytes(name)
        I.ctx.assume(blen(t) >= 0)
        return SBytes(R.Rope([R.full_atom(t)]), v.kind)
    if v is None:
        return None
    raise OutOfReach(f"cannot havoc loop variable {name} of type {type(v).__name__}")


def exec_while(I, node, env):
    fname, k = _loop_key(I, node)
    ann = I.local_loops.get((fname, k)) or I.registry.loop_annotation(fname, k)
    if node.orelse:
        raise OutOfReach("while/else")
    if ann is None or ann.get("unroll"):
        # exact unrolling while the condition stays decidable on the path; with an `unroll=N` annotation an
        # undecided condition forks (complete when the inputs are range-bounded by the contract's case split)
        n = 0
        sym_iters = 0
        limit = ann.get("unroll") if ann else None
        while True:
            cond = I.truth(I.eval(node.test, env))
            cb = conc_bool_or_none(cond)
            if cb is None:
                sym_iters += 1
                if ann is None and sym_iters > 48:
                    # the condition is not concrete, yet the path condition keeps deciding it (typically because the body forks on
                    # how much was consumed): this is a loop of symbolic trip count being unrolled one path per count
                    raise OutOfReach(f"loop {fname}#{k}: symbolic trip count (48 iterations unrolled, the condition still depends on symbolic values) and no loop annotation")
                d = R._decide(I.ctx, cond)
                if d is None:
                    if limit is None:
                        raise OutOfReach(f"loop {fname}#{k}: symbolic trip count and no loop annotation")
                    if n > limit:
                        raise OutOfReach(f"loop {fname}#{k}: more than {limit} unrolled iterations with an undecided condition")
                    d = I.ctx.branch(cond)
                cb = d
            if not cb:
                return
            n += 1
            I.ctx.tick("ticks")
            if n > 300:
                raise OutOfReach(f"loop {fname}#{k}: more than 300 concrete iterations")
            try:
                I.exec_block(node.body, env)
            except BreakLoop:
                return
            except ContinueLoop:
                continue
        return
    _annotated(I, node, env, ann, fname, k, kind="while")




def conc_bool_or_none(c):
    if isinstance(c, bool):
        return c
    s = simp(c)
    if z3.is_true(s):
        return True
    if z3.is_false(s):
        return False
    return None


def exec_for(I, node, env):
    from .interp import EnumerateVal, RangeVal

    fname, k = _loop_key(I, node)
    ann = I.local_loops.get((fname, k)) or I.registry.loop_annotation(fname, k)
    if node.orelse:
        raise OutOfReach("for/else")
    it = I.eval(node.iter, env)
    concrete_items = None
    try:
        if ann is None or not _symbolic_iter(I, it):
            concrete_items = I.iter_values(it)
    except OutOfReach:
        concrete_items = None
    if concrete_items is not None and (ann is None or len(concrete_items) <= 64):
        if len(concrete_items) > 2000:
            raise OutOfReach("for over more than 2000 concrete items")
        for item in concrete_items:
            I.ctx.tick("ticks")
            I.assign(node.target, item, env)
            try:
                I.exec_block(node.body, env)
            except BreakLoop:
                break
            except ContinueLoop:
                continue
        return
    if ann is None:
        # no proof is possible without an invariant; the first trip counts are still explored (forking on count == 0, 1, 2)
        # so that a wrong result on such a path is REFUTED (and replayed) instead of only being reported as out of reach
        space = None  # (length term, index -> item)
        base, off = (it.inner, it.start) if isinstance(it, EnumerateVal) and isinstance(it.start, int) else (it, None)
        if isinstance(base, RangeVal) and isinstance(base.start, int) and isinstance(base.step, int) and base.step == 1:
            space = (simp(Z(base.stop) - base.start), lambda i, a=base.start: a + i)
        elif isinstance(base, (SBytes, SView)):
            space = (I.bytes_len(base), lambda i, b=base: I.getitem(b, i))
        elif isinstance(base, SList):
            space = (base.length, lambda i, b=base: b.elem(i))
        if space is not None:
            from .values import PartialReach

            n_items, item_at = space
            i = 0
            while True:
                if I.branch(Z(n_items) <= i):
                    return
                if i >= 2:
                    raise PartialReach(f"loop {fname}#{k}: symbolic iteration space and no loop annotation")
                I.ctx.tick("ticks")
                x = item_at(i)
                I.assign(node.target, x if off is None else (off + i, x), env)
                i += 1
                try:
                    I.exec_block(node.body, env)
                except BreakLoop:
                    return
                except ContinueLoop:
                    continue
        raise OutOfReach(f"loop {fname}#{k}: symbolic iteration space and no loop annotation")
    _annotated(I, node, env, ann, fname, k, kind="for", iterable=it)


def _symbolic_iter(I, it):
    from .interp import EnumerateVal, RangeVal

    if isinstance(it, RangeVal):
        return not (isinstance(it.start, int) and isinstance(it.stop, int))
    if isinstance(it, EnumerateVal):
        return _symbolic_iter(I, it.inner)
    if isinstance(it, (SBytes, SView)):
        return not isinstance(I.bytes_len(it), int)
    if isinstance(it, SList):
        return True
    return False


def _annotated(I, node, env, ann, fname, k, kind, iterable=None):
    """Inductive treatment:  init;  havoc;  assume inv;  (exit | body; preserved; variant; cut)."""
    from .interp import EnumerateVal, RangeVal

    ctx = I.ctx
    tag = f"{I.name_of(I.frames[-1].fi)}/loop{k}"
    names, mutated = assigned_names(node.body if kind == "while" else node.body + [ast.Assign(targets=[node.target], value=ast.Constant(0), lineno=0, col_offset=0)])
    resized = assigned_names.resized
    hidden = {}
    idx_name = "_i"
    # hidden index for `for`
    lo = hi = None
    getter = None
    if kind == "for":
        it = iterable
        enum_start = None
        if isinstance(it, EnumerateVal):
            enum_start = it.start
            it = it.inner
        if isinstance(it, RangeVal):
            if it.step == 1:
                lo, hi = it.start, it.stop
                getter = lambda i: i  # noqa: E731
            elif it.step == -1:
                # counting down: the hidden index s._i counts iterations 0..start-stop, the loop variable is start - _i
                lo, hi = 0, simp(Z(it.start) - Z(it.stop))
                getter = lambda i, start=it.start: simp(Z(start) - Z(i))  # noqa: E731
            else:
                raise OutOfReach("range step in annotated loop")
        elif isinstance(it, (SBytes, SView)):
            lo, hi = 0, I.bytes_len(it)
            snapshot = I.rope_of(it)

            def getter(i):
                v = R.to_int(ctx, R.slice_norm(ctx, snapshot, i, R._add(i, 1)), "little")
                if not isinstance(v, int):
                    ctx.assume(z3.And(Z(v) >= 0, Z(v) <= 255))  # an element of a bytes-like object
                return v

        elif isinstance(it, SList):
            lo, hi = 0, it.length
            getter = it.elem
        elif isinstance(it, (list, tuple)):
            lo, hi = 0, len(it)
            seq = list(it)

            def getter(i, seq=seq):
                ic = conc_int(i)
                if ic is not None:
                    return seq[ic]
                for j in range(len(seq)):
                    if ctx.branch(Z(i) == j):
                        return seq[j]
                raise PathEnd()
        else:
            raise OutOfReach(f"annotated for over {type(it).__name__}")
        if enum_start is not None:
            base_getter = getter
            getter = lambda i: (R._add(i, enum_start), base_getter(i))  # noqa: E731
        hidden[idx_name] = lo
    # --- init
    def freeze(v_):
        # the value as it is at loop entry: objects whose fields the body may reassign are copied one level deep, so that
        # s.at_entry.reader.fields["_view"] keeps meaning "the view at loop entry" (immutable values are shared)
        if isinstance(v_, SObj):
            cp = SObj(v_.cls, dict(v_.fields))
            cp.ghost = dict(getattr(v_, "ghost", {}) or {})
            return cp
        if isinstance(v_, SBytes) and v_.kind == "bytearray":
            return SBytes(v_.rope, v_.kind)
        return v_

    snap = {}
    e_ = env
    while e_ is not None:
        for k_, v_ in e_.vars.items():
            snap.setdefault(k_, freeze(v_))
        e_ = e_.parent
    snap.update(ctx.ghost)
    from .program import rename_map

    rmap = rename_map(I.frames[-1].fi)
    entry = Snapshot(snap, rmap)
    if rmap:
        # annotation keys (havoc rules, modifies) name locals of the reference tree
        ann = dict(ann)
        if ann.get("havoc"):
            ann["havoc"] = {rmap.get(k, k): v for k, v in ann["havoc"].items()}
        if ann.get("modifies"):
            ann["modifies"] = [rmap.get(k, k) for k in ann["modifies"]]
    st = LoopState(I, env, hidden, entry)
    if ann.get("invariant") is not None:
        inv0 = ann["invariant"](st)
        ctx.prove(f"{tag}.init", _conj(I, inv0))
    # --- havoc
    if kind == "for":
        i = fresh_int("idx")
        ctx.assume(z3.And(i >= Z(lo), i <= z3.If(Z(hi) >= Z(lo), Z(hi), Z(lo))))
        hidden[idx_name] = i
    st = LoopState(I, env, hidden, entry)
    frame_vars = set(names) | set(mutated) | set(ann.get("modifies", ()))
    for n in sorted(frame_vars):
        found, cur = env.lookup(n)
        if not found:
            continue
        hv = ann.get("havoc", {}).get(n)
        if hv is not None:
            env.vars[n] = hv(I, cur, st)
        elif n in mutated and not (n in names):
            # mutated container: must be havocked through an explicit rule
            if isinstance(cur, SBytes) and cur.kind == "bytearray":
                t = fresh_bytes(n)
                # element stores keep the length; append/extend/pop/insert do not
                ctx.assume(blen(t) >= 0 if n in resized else blen(t) == Z(cur.rope.length()))
                cur.rope = R.Rope([R.full_atom(t)])
            else:
                raise OutOfReach(f"loop {tag}: {n} ({type(cur).__name__}) is mutated in the body; the annotation needs a havoc rule for it")
        else:
            env.vars[n] = havoc_like(I, cur, n)
    for hv in ann.get("havoc_heap", ()):
        hv(I, st)
    for g in ann.get("ghost", ("ticks", "copied", "kdf_calls")):
        if g in ctx.ghost:
            fg = fresh_int("ghost_" + g)
            ctx.assume(fg >= Z(ctx.ghost[g]))
            ctx.ghost[g] = fg
    st = LoopState(I, env, hidden, entry)
    if ann.get("invariant") is not None:
        ctx.assume(_conj(I, ann["invariant"](st)))
    # --- exit or one more iteration
    if kind == "while":
        more = I.truthy(I.eval(node.test, env))
    else:
        more = ctx.branch(Z(hidden[idx_name]) < Z(hi))
    if not more:
        if kind == "for":
            pass
        return
    ctx.tick("ticks")
    v0 = None
    if ann.get("variant") is not None:
        v0 = ann["variant"](st)
        ctx.prove(f"{tag}.variant.bounded", simp(Z(v0) >= 0))
    if kind == "for":
        item = getter(hidden[idx_name])
        I.assign(node.target, item, env)
    try:
        I.exec_block(node.body, env)
    except BreakLoop:
        return  # leaves the loop from an arbitrary iteration
    except ContinueLoop:
        pass
    if kind == "for":
        hidden[idx_name] = simp(Z(hidden[idx_name]) + 1)
    st = LoopState(I, env, hidden, entry)
    if ann.get("invariant") is not None:
        ctx.prove(f"{tag}.preserved", _conj(I, ann["invariant"](st)))
    if v0 is not None:
        v1 = ann["variant"](st)
        ctx.prove(f"{tag}.variant.decreases", simp(Z(v1) < Z(v0)))
    ctx.cover(f"{tag}.body")
    raise PathEnd()


def _conj(I, v):
    if isinstance(v, (list, tuple)):
        return I._and([_conj(I, x) for x in v])
    if isinstance(v, bool):
        return v
    return v
