"""Run-wide settings readable by contracts (bounds of bounded stand-ins depend on the tier)."""
import os

TIER = os.environ.get("VERIF_TIER", "quick")


def bound(quick, thorough):
    return thorough if TIER == "thorough" else quick
