"""One execution path: decisions, path condition, obligations, ghost state."""
from __future__ import annotations

import time

import z3

from .smt import PathSolver, Z, fresh_int, reset_names, simp
from .values import PathEnd


import os as _os

SECOND_BACKENDS = _os.environ.get("VERIF_TIER", "quick") == "thorough" and not _os.environ.get("PYVC_NO_SECOND")
SECOND_TIMEOUT_S = int(_os.environ.get("PYVC_SECOND_TIMEOUT", "10"))


class Obligation:
    __slots__ = ("name", "status", "detail", "ms", "backend", "model", "path_id", "formula", "inputs", "second")

    def __init__(self, name, status, detail="", ms=0.0, backend="z3-5.1", model=None, path_id=None, formula=None):
        self.name = name
        self.status = status  # discharged | refuted | undischarged
        self.detail = detail
        self.ms = ms
        self.backend = backend
        self.model = model
        self.path_id = path_id
        self.formula = formula
        self.inputs = None
        self.second = None  # thorough tier: verdicts of the external solvers on the same query


class PathCtx:
    def __init__(self, decisions, axioms=(), prove_timeout_ms=10000, feas_timeout_ms=3000, keep_formulas=False):
        reset_names()
        self.decisions = list(decisions)
        self.taken: list[bool] = []
        self.pending: list[list[bool]] = []
        self.solver = PathSolver(axioms, feas_timeout_ms=feas_timeout_ms, prove_timeout_ms=prove_timeout_ms)
        self.obligations: list[Obligation] = []
        self.ghost = {"ticks": 0, "copied": 0, "kdf_calls": 0}
        self.trace: list = []  # external interaction events
        self.notes: list[str] = []
        self.keep_formulas = keep_formulas
        self.axioms = list(axioms)
        self.covers: set[str] = set()
        self._divmod: dict = {}
        self._divs_of: dict = {}
        self._ranges: dict = {}
        self.concretizer = None
        self.forked_child = False

    # ------------------------------------------------------------ assumptions / queries
    def assume(self, f):
        if f is True:
            return
        if f is False:
            raise PathEnd()
        self.solver.add(f)

    def entails(self, f) -> bool:
        if f is True:
            return True
        if f is False:
            return False
        return self.solver.entails(f)

    # ------------------------------------------------------------ division by positive constants
    def divmod_const(self, a, K):
        """(a div K, a mod K) for a positive int K as fresh integers with their defining constraints in the path
        condition (floor semantics = Python's for K > 0). Done at construction time so that z3's simplifier never
        sees div/mod over large constants (it renormalises them into shapes LIA cannot relate; measured on C09)."""
        assert isinstance(K, int) and K > 0
        if isinstance(a, int):
            return a // K, a % K
        if K == 1:
            return a, 0
        a = simp(Z(a))
        c = z3.is_int_value(a)
        if c:
            v = a.as_long()
            return v // K, v % K
        key = (a.get_id(), K)
        hit = self._divmod.get(key)
        if hit is None:
            q = fresh_int("q")
            r = fresh_int("r")
            self.solver.add(z3.And(a == K * q + r, r >= 0, r < K))
            self.set_range(r, 0, K - 1)
            iv = self.interval(a)
            if iv is not None and None not in iv:
                self.set_range(q, iv[0] // K, iv[1] // K)
            lst = self._divs_of.setdefault(a.get_id(), [])
            for K1, q1, r1 in lst:
                x, y = (K1, K) if K1 < K else (K, K1)
                (qa, ra), (qb, rb) = ((q1, r1), (q, r)) if K1 < K else ((q, r), (q1, r1))
                if y % x == 0:
                    m = y // x
                    sv = fresh_int("s")
                    self.solver.add(z3.And(qa == m * qb + sv, sv >= 0, sv < m, rb == x * sv + ra))
            lst.append((K, q, r))
            hit = (q, r, a)
            self._divmod[key] = hit
        return hit[0], hit[1]

    def digits(self, v, n):
        """The n base-256 digits of v (least significant first) for 0 <= v < 256**n, as the canonical progressive chain
        v = 256*q1 + d0, q1 = 256*q2 + d1, ... (the same fresh variables that `x & 255` / `x >>= 8` loops produce,
        because divisions are cached per term), plus the sum identity as a lemma."""
        if isinstance(v, int):
            return [(v >> (8 * j)) & 255 for j in range(n)]
        v = simp(Z(v))
        key = ("digits", v.get_id(), n)
        hit = self._divmod.get(key)
        if hit is not None:
            return hit
        ds = []
        q = v
        for j in range(n - 1):
            q, r = self.divmod_const(q, 256)
            ds.append(r)
        if n >= 1:
            ds.append(q)
            if not isinstance(q, int):
                self.solver.add(z3.And(Z(q) >= 0, Z(q) <= 255))
        if n >= 2:
            self.solver.add(v == z3.Sum([Z(d) * (256**j) for j, d in enumerate(ds)]))
        self._divmod[key] = ds
        return ds

    # ------------------------------------------------------------ cheap intervals (no solver)
    def set_range(self, var, lo, hi):
        if isinstance(var, z3.ExprRef):
            self._ranges[var.get_id()] = (var, lo, hi)

    def interval(self, t):
        """(lo, hi) bounds of a linear integer term from the recorded ranges of its variables, or None."""
        if isinstance(t, bool):
            return None
        if isinstance(t, int):
            return (t, t)
        if not isinstance(t, z3.ArithRef):
            return None
        if z3.is_int_value(t):
            return (t.as_long(), t.as_long())
        hit = self._ranges.get(t.get_id())
        if hit is not None:
            return (hit[1], hit[2])
        if not z3.is_app(t):
            return None
        k = t.decl().kind()
        ch = t.children()
        if k == z3.Z3_OP_ADD:
            lo = hi = 0
            for x in ch:
                iv = self.interval(x)
                if iv is None or iv[0] is None or iv[1] is None:
                    return None
                lo += iv[0]
                hi += iv[1]
            return (lo, hi)
        if k == z3.Z3_OP_SUB and len(ch) == 2:
            a, b = self.interval(ch[0]), self.interval(ch[1])
            if a is None or b is None or None in a or None in b:
                return None
            return (a[0] - b[1], a[1] - b[0])
        if k == z3.Z3_OP_UMINUS:
            a = self.interval(ch[0])
            if a is None or None in a:
                return None
            return (-a[1], -a[0])
        if k == z3.Z3_OP_MUL and len(ch) == 2:
            for c_, x in ((ch[0], ch[1]), (ch[1], ch[0])):
                if z3.is_int_value(c_):
                    m = c_.as_long()
                    a = self.interval(x)
                    if a is None or None in a:
                        return None
                    return (min(m * a[0], m * a[1]), max(m * a[0], m * a[1]))
        return None

    def div(self, a, K):
        return self.divmod_const(a, K)[0]

    def mod(self, a, K):
        return self.divmod_const(a, K)[1]

    def value_of(self, t):
        """The unique value of integer term t under the path condition, or None."""
        r, m = self.solver.model()
        if m is None:
            return None
        try:
            v = m.eval(Z(t), model_completion=True)
            if not z3.is_int_value(v):
                return None
            v = v.as_long()
        except Exception:
            return None
        return v if self.solver.entails(Z(t) == v) else None

    def feasible(self) -> bool:
        return self.solver.check() != z3.unsat

    def branch(self, cond) -> bool:
        """Fork on a condition; returns the side this path takes."""
        if isinstance(cond, bool):
            return cond
        c = simp(Z(cond))
        if z3.is_true(c):
            return True
        if z3.is_false(c):
            return False
        idx = len(self.taken)
        if idx < len(self.decisions):
            d = self.decisions[idx]
        else:
            rt = self.solver.check(c)
            if rt == z3.unsat:
                d = False
            else:
                rf = self.solver.check(z3.Not(c))
                if rf == z3.unsat:
                    d = True
                else:
                    from . import forker
                    from .values import FUNCTION_DEADLINE, OutOfReach

                    if FUNCTION_DEADLINE[0] is not None and time.time() > FUNCTION_DEADLINE[0]:
                        raise OutOfReach("exploring this function took more than its time budget (engine budget: too many paths through the current code)")
                    role = forker.try_fork()
                    if role == "child":
                        d = False
                        self.forked_child = True
                        self.pending = []
                        from .values import arm_path_timer

                        arm_path_timer()  # interval timers are not inherited across fork
                    elif role == "parent":
                        d = True
                    else:
                        d = True
                        self.pending.append(self.taken + [False])
        self.taken.append(d)
        self.solver.add(c if d else z3.Not(c))
        return d

    def choose(self, n: int, label="choice") -> int:
        """Nondeterministic choice among n alternatives (used for case splits in contracts)."""
        for i in range(n - 1):
            b = z3.Bool(f"choose!{label}!{len(self.taken)}!{i}")
            if self.branch(b):
                return i
        return n - 1

    # ------------------------------------------------------------ obligations
    def prove(self, name, cond, detail=""):
        """Record an obligation: pc => cond. Afterwards cond is assumed (so one failure is reported once)."""
        t0 = time.time()
        formula = None
        if cond is True:
            status, model = "discharged", None
        elif cond is False:
            # reaching this point at all is the violation: discharged iff the path condition (with the axioms) is unsat
            if self.solver.check(None, timeout=self.solver.prove_timeout, prove=True) == z3.unsat:
                status, model = "discharged", None  # unreachable
            else:
                r, m = self.solver.model()
                if r == z3.unsat:
                    status, model = "discharged", None
                else:
                    status, model = ("refuted", m) if r == z3.sat else ("undischarged", None)
        else:
            c = simp(Z(cond))
            if z3.is_true(c):
                status, model = "discharged", None
            else:
                r = self.solver.check(z3.Not(c), timeout=self.solver.prove_timeout, prove=True)
                if r == z3.unsat:
                    status, model = "discharged", None
                else:
                    # not proved: a model of pc and not(cond) (found without the quantified axioms) is a candidate
                    # counterexample; with quantifiers z3 answers "unknown" rather than "sat", so the distinction
                    # refuted / undischarged is made by whether such a candidate exists.
                    r2, model = self.solver.model(z3.Not(c))
                    status = "refuted" if (r == z3.sat or r2 == z3.sat) else "undischarged"
                if self.keep_formulas:
                    formula = list(self.solver.pc) + [z3.Not(c)]
        ms = (time.time() - t0) * 1000
        ob = Obligation(name, status, detail, ms, model=model, formula=formula)
        if SECOND_BACKENDS and status == "discharged" and cond is not True and cond is not False and not z3.is_true(simp(Z(cond))):
            # thorough tier: the very query z3 5.1 answered "unsat" (path condition, activated axioms, purification
            # definitions, negated clause) goes to /usr/bin/z3 4.8.12 and /usr/bin/cvc5 as SMT-LIB2 text
            from .smt import second_opinion

            neg = self.solver.purify(z3.Not(simp(Z(cond))))
            ob.second = second_opinion(list(self.solver.s.assertions()) + [neg], timeout_s=SECOND_TIMEOUT_S)
        if model is not None and self.concretizer is not None:
            try:
                ob.inputs = self.concretizer(model)
            except Exception as e:  # concretisation problems never change a verdict
                ob.inputs = None
                self.notes.append(f"concretize failed: {type(e).__name__}: {e}")
        self.obligations.append(ob)
        if status != "discharged" and cond is not False and cond is not True:
            self.solver.add(Z(cond))
        return status == "discharged"

    def cover(self, label):
        self.covers.add(label)

    def tick(self, counter="ticks", n=1):
        self.ghost[counter] = self.ghost.get(counter, 0) + n

    def event(self, kind, **data):
        self.trace.append((kind, data))
