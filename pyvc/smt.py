"""SMT layer of pyvc: sorts, uninterpreted functions, path solver with caching.

Everything sent to the solver is Ints, Bools, uninterpreted sorts (Bytes, Str, Obj), UFs, arrays
and pattern-quantified axioms. No sequence, string or floating point theory (DESIGN 0, 2.3).
"""
from __future__ import annotations

import itertools
import os
import time

import z3

Bytes = z3.DeclareSort("Bytes")  # byte strings as opaque values; structure lives in ropes
Str = z3.DeclareSort("Str")  # text strings
Ref = z3.DeclareSort("Ref")  # opaque external objects (hash algorithms, curves, ...)

blen = z3.Function("blen", Bytes, z3.IntSort())  # length of an opaque byte string
byte_at = z3.Function("byte_at", Bytes, z3.IntSort(), z3.IntSort())  # i-th byte, 0..255

_counter = [0]


def fresh_name(prefix: str) -> str:
    _counter[0] += 1
    return f"{prefix}!{_counter[0]}"


def reset_names():
    """Called at the start of every path: fresh names are then a deterministic function of the execution prefix, so
    the terms of a shared prefix are the same (hash-consed) ASTs on every path and solver answers can be shared."""
    _counter[0] = 0


QCACHE: dict = {}  # (path-condition key, query id, prove?) -> result, shared by all paths of one process
QHOLD: list = []  # keeps every AST used in a key alive so that ids are never reused


def fresh_int(prefix="i"):
    return z3.Int(fresh_name(prefix))


def fresh_bool(prefix="b"):
    return z3.Bool(fresh_name(prefix))


def fresh_bytes(prefix="B"):
    return z3.Const(fresh_name(prefix), Bytes)


def fresh_str(prefix="S"):
    return z3.Const(fresh_name(prefix), Str)


def fresh_ref(prefix="R"):
    return z3.Const(fresh_name(prefix), Ref)


_str_lits: dict[str, z3.ExprRef] = {}


def str_lit(s: str):
    """A distinct constant of sort Str per Python literal (distinctness asserted in PathSolver)."""
    if s not in _str_lits:
        _str_lits[s] = z3.Const("strlit_" + s.encode("utf-8", "surrogatepass").hex(), Str)
    return _str_lits[s]


_bytes_lits: dict[bytes, z3.ExprRef] = {}


def bytes_lit(b: bytes):
    if b not in _bytes_lits:
        _bytes_lits[b] = z3.Const("byteslit_" + b.hex(), Bytes)
    return _bytes_lits[b]


_DECLS_MEMO: dict = {}


def decl_names(e) -> set:
    """Names of the uninterpreted functions / constants applied in e (memoised per AST)."""
    if not isinstance(e, z3.ExprRef):
        return set()
    eid = e.get_id()
    hit = _DECLS_MEMO.get(eid)
    if hit is not None:
        return hit[1]
    out = set()
    if z3.is_quantifier(e):
        out |= decl_names(e.body())
    elif z3.is_app(e):
        d = e.decl()
        if d.kind() == z3.Z3_OP_UNINTERPRETED and e.num_args() > 0:
            out.add(d.name())
        for ch in e.children():
            out |= decl_names(ch)
    _DECLS_MEMO[eid] = (e, out)
    return out


def is_int_term(v) -> bool:
    return isinstance(v, z3.ArithRef)


def is_bool_term(v) -> bool:
    return isinstance(v, z3.BoolRef)


def Z(v):
    """Python int/bool or z3 term -> z3 term."""
    if isinstance(v, bool):
        return z3.BoolVal(v)
    if isinstance(v, int):
        return z3.IntVal(v)
    return v


_SIMP_MEMO: dict = {}


def simp(e):
    """z3.simplify with a memo per AST (terms are hash-consed and, with deterministic fresh names, recur on every path)."""
    if not isinstance(e, z3.ExprRef):
        return e
    k = e.get_id()
    hit = _SIMP_MEMO.get(k)
    if hit is not None:
        return hit[1]
    r = z3.simplify(e)
    _SIMP_MEMO[k] = (e, r)
    _SIMP_MEMO.setdefault(r.get_id(), (r, r))
    return r


def conc_int(e):
    """Return a Python int if the term is a numeral after simplification, else None."""
    if isinstance(e, bool):
        return int(e)
    if isinstance(e, int):
        return e
    if isinstance(e, z3.ArithRef):
        s = simp(e)
        if z3.is_int_value(s):
            return s.as_long()
    return None


def conc_bool(e):
    if isinstance(e, bool):
        return e
    if isinstance(e, z3.BoolRef):
        s = simp(e)
        if z3.is_true(s):
            return True
        if z3.is_false(s):
            return False
    return None


class Stats:
    def __init__(self):
        self.queries = 0
        self.cache_hits = 0
        self.solver_s = 0.0


STATS = Stats()


class PathSolver:
    """Incremental solver holding the path condition of one path."""

    def __init__(self, axioms=(), feas_timeout_ms=3000, prove_timeout_ms=10000):
        # two solvers over the same path condition:
        #   s  - with the (pattern-quantified) axioms, MBQI off: used for unsat questions (entailment, obligations);
        #   sf - without quantified axioms: used for branch feasibility, where "sat" must be cheap.
        # A path that is infeasible only because of an axiom is explored anyway; every obligation on it is then
        # discharged from the contradiction (over-approximation of paths is sound for proving).
        self.s = z3.Solver()
        self.s.set("smt.mbqi", False)
        self.s.set("smt.auto_config", False)
        self.sf = z3.Solver()
        self.feas_timeout = feas_timeout_ms
        self.prove_timeout = prove_timeout_ms
        self.pc: list = []
        self._lits_seen = 0
        self._blits_seen = 0
        self._key = 0
        self._cache = QCACHE
        self._hold = QHOLD
        self._pur_memo: dict = {}
        self._divmod: dict = {}
        self._divs_of: dict = {}
        # Axioms are activated lazily: a quantified axiom enters the prove solver only once one of its head symbols
        # occurs in the path condition or in a query (an axiom about symbols that do not occur is irrelevant, and some
        # quantified axioms make z3 burn its whole budget before answering "unknown" on satisfiable queries).
        self.has_quantified_axioms = False
        self._lazy = []
        self._seen_syms: set = set()
        for a in axioms:
            syms = None
            if isinstance(a, tuple):
                a, syms = a
            if not z3.is_quantifier(a):
                self.s.add(a)
                self.sf.add(a)
            elif syms:
                self._lazy.append([a, set(syms), False])
            else:
                self.s.add(a)
                self.has_quantified_axioms = True

    def _both(self, f):
        self.s.add(f)
        self.sf.add(f)
        self._activate(f)

    def _activate(self, f):
        if not self._lazy:
            return
        new = decl_names(f) - self._seen_syms
        if not new:
            return
        self._seen_syms |= new
        for ent in self._lazy:
            if not ent[2] and ent[1] & new:
                ent[2] = True
                self.s.add(ent[0])
                self.has_quantified_axioms = True
                self._activate(ent[0])

    # ---- div/mod purification -------------------------------------------------------------------
    # z3 is slow or incomplete on div/mod by large constants (measured: `unknown` after 20 s on the C09 interval
    # identity). Every `x div K` / `x mod K` with a positive numeral K is replaced by fresh q, r with the defining
    # constraint x = K*q + r, 0 <= r < K (a conservative extension), plus the valid linking lemma for two divisors
    # K1 | K2 of the same term:  q1 = m*q2 + s, 0 <= s < m, r2 = K1*s + r1  (m = K2/K1). The result is pure LIA.
    def purify(self, e):
        if not isinstance(e, z3.ExprRef):
            return e
        return self._pur(e)

    def _pur(self, e):
        if z3.is_quantifier(e) or not z3.is_app(e):
            return e
        eid = e.get_id()
        hit = self._pur_memo.get(eid)
        if hit is not None:
            return hit[1]
        kids = [self._pur(c) for c in e.children()]
        k = e.decl().kind()
        out = None
        if k in (z3.Z3_OP_IDIV, z3.Z3_OP_MOD) and z3.is_int_value(kids[1]) and kids[1].as_long() > 0:
            K = kids[1].as_long()
            x = kids[0]
            key = (x.get_id(), K)
            if key not in self._divmod:
                q = fresh_int("pq")
                r = fresh_int("pr")
                self._both(z3.And(x == K * q + r, r >= 0, r < K))
                self._divmod[key] = (q, r, x)
                lst = self._divs_of.setdefault(x.get_id(), [])
                for K1, q1, r1 in lst:
                    a, b = (K1, K) if K1 < K else (K, K1)
                    (qa, ra), (qb, rb) = ((q1, r1), (q, r)) if K1 < K else ((q, r), (q1, r1))
                    if b % a == 0:
                        m = b // a
                        sv = fresh_int("ps")
                        self._both(z3.And(qa == m * qb + sv, sv >= 0, sv < m, rb == a * sv + ra))
                lst.append((K, q, r))
            q, r, _ = self._divmod[key]
            out = q if k == z3.Z3_OP_IDIV else r
        elif kids:
            same = all(a.eq(b) for a, b in zip(kids, e.children()))
            out = e if same else e.decl()(*kids)
        else:
            out = e
        self._pur_memo[eid] = (e, out)
        return out

    def _sync_lits(self):
        # distinctness of string / bytes literals introduced so far
        if len(_str_lits) > self._lits_seen and len(_str_lits) > 1:
            self._both(z3.Distinct(*_str_lits.values()))
            self._lits_seen = len(_str_lits)
        if len(_bytes_lits) > self._blits_seen:
            for b, t in list(_bytes_lits.items())[self._blits_seen :]:
                self._both(blen(t) == len(b))
                for i, x in enumerate(b[:64]):
                    self._both(byte_at(t, i) == x)
            if len(_bytes_lits) > 1:
                self._both(z3.Distinct(*_bytes_lits.values()))
            self._blits_seen = len(_bytes_lits)

    def add(self, f):
        f = Z(f)
        if z3.is_true(f):
            return
        self.pc.append(f)
        self._hold.append(f)
        self._both(self.purify(f))
        self._key = hash((self._key, f.get_id()))

    def check(self, extra=None, timeout=None, prove=False):
        """sat / unsat / unknown of pc (and extra). prove=True: ask the solver that has the axioms."""
        self._sync_lits()
        key = (self._key, extra.get_id() if extra is not None else None, prove)
        if key in self._cache:
            STATS.cache_hits += 1
            return self._cache[key]
        STATS.queries += 1
        t0 = time.time()
        solver = self.s if prove else self.sf
        budget = timeout or (self.prove_timeout if prove else self.feas_timeout)
        # 1) the incremental solver with a short budget: answers the vast majority of queries in about a millisecond
        solver.set("timeout", min(budget, 1000))
        if extra is None:
            px = None
            r = solver.check()
        else:
            self._hold.append(extra)
            px = self.purify(extra)
            self._activate(px)
            solver.push()
            solver.add(px)
            r = solver.check()
            solver.pop()
        reason = solver.reason_unknown() if r == z3.unknown else ""
        if r == z3.unknown and ("timeout" in reason or "cancel" in reason or "resource" in reason or "max." in reason):
            # 2) The incremental core has no preprocessing (no equation solving) and gets lost on chains of linear
            # definitions with large coefficients (digit decompositions) that a one-shot solver eliminates at once
            # (measured: unknown after 10 s incrementally, unsat in 10 ms one-shot): re-ask a fresh solver.
            quantified = prove and (any(ent[2] for ent in self._lazy) or self.has_quantified_axioms)
            attempts = [z3.Solver()] if quantified else [z3.Then("simplify", "solve-eqs", "smt").solver(), z3.Solver()]
            for fresh in attempts:
                if quantified:
                    fresh.set("smt.mbqi", False)
                fresh.set("timeout", budget)
                fresh.add(*solver.assertions())
                if px is not None:
                    fresh.add(px)
                r = fresh.check()
                if r != z3.unknown:
                    break
            STATS.fresh = getattr(STATS, "fresh", 0) + 1
        dt = time.time() - t0
        STATS.solver_s += dt
        if dt > 2.0 and os.environ.get("PYVC_TRACE_SLOW"):
            print(f"[slow query] {dt:.1f}s prove={prove} result={r} assertions={len(solver.assertions())}", flush=True)
            d = z3.Solver()
            d.add(*solver.assertions())
            if px is not None:
                d.add(px)
            open(f"/tmp/slow_{'p' if prove else 'f'}.smt2", "w").write(d.to_smt2())
        self._cache[key] = r
        return r

    def entails(self, f, timeout=None) -> bool:
        """True iff pc => f is proved (unsat of pc and not f). Unknown counts as not proved."""
        f = Z(f)
        s = simp(f)
        if z3.is_true(s):
            return True
        if z3.is_false(s):
            # could still be entailed by an inconsistent pc; not relevant here
            return False
        r = self.check(z3.Not(s), timeout or 2000)
        if r == z3.unsat:
            return True
        if not self.has_quantified_axioms:
            return False
        return self.check(z3.Not(s), timeout or self.feas_timeout, prove=True) == z3.unsat

    def model(self, extra=None):
        """A model of the path condition (and extra) from the axiom-free solver: a counterexample candidate."""
        self._sync_lits()
        self.sf.set("timeout", self.prove_timeout)
        self.sf.push()
        if extra is not None:
            self.sf.add(self.purify(extra))
        r = self.sf.check()
        m = self.sf.model() if r == z3.sat else None
        self.sf.pop()
        return r, m


def second_opinion(assertions, timeout_s=30):
    """Re-check an unsat claim with the external z3 4.8.12 / cvc5 binaries on the SMT-LIB2 dump.

    Returns dict backend -> 'unsat' | 'sat' | 'unknown' | 'error'. Used by the thorough tier.
    """
    import subprocess
    import tempfile
    import os

    s = z3.Solver()
    for a in assertions:
        s.add(a)
    text = s.to_smt2()
    out = {}
    with tempfile.NamedTemporaryFile("w", suffix=".smt2", delete=False) as f:
        f.write(text)
        path = f.name
    try:
        for name, cmd in (
            ("z3-4.8.12", ["/usr/bin/z3", f"-T:{timeout_s}", path]),
            ("cvc5-1.0.3", ["/usr/bin/cvc5", f"--tlimit={timeout_s * 1000}", "--full-saturate-quant", path]),
        ):
            try:
                p = subprocess.run(cmd, capture_output=True, text=True, timeout=timeout_s + 5)
                first = (p.stdout.strip().splitlines() or ["error"])[0].strip()
                out[name] = first if first in ("sat", "unsat", "unknown") else "unknown"
            except Exception:
                out[name] = "unknown"
    finally:
        os.unlink(path)
    return out
