"""Runs under /venv/bin/python with PYTHONPATH=<tree>/src: dumps what pyvc reads from the *imported*
working tree instead of executing symbolically (DESIGN 2.2): module constants, registries, class
tables (dataclass fields, enum members, NamedTuple fields, MRO, method kinds, aliases).

Usage: python introspect.py > table.json
"""
from __future__ import annotations

import dataclasses
import enum
import importlib
import inspect
import json
import pkgutil
import re
import sys
import types
import uuid

PKG = "dpapi_ng"


def ref_of(obj):
    return f"{obj.__module__}:{obj.__qualname__}"


def dump(v, depth=0):
    if depth > 12:
        return {"k": "other", "repr": "too deep"}
    if v is None or isinstance(v, bool):
        return {"k": "const", "v": v}
    if isinstance(v, enum.Enum):
        return {"k": "enum", "cls": ref_of(type(v)), "name": v.name, "value": dump(v.value, depth + 1)}
    if isinstance(v, int):
        return {"k": "int", "v": str(v)}
    if isinstance(v, str):
        return {"k": "const", "v": v}
    if isinstance(v, (bytes, bytearray)):
        return {"k": "bytes", "hex": bytes(v).hex()}
    if isinstance(v, uuid.UUID):
        return {"k": "uuid", "hex": v.hex}
    if isinstance(v, re.Pattern) and isinstance(v.pattern, str):
        return {"k": "regex", "pattern": v.pattern, "flags": int(v.flags) & ~int(re.UNICODE)}  # an immutable compiled pattern
    if isinstance(v, type):
        return {"k": "class", "ref": ref_of(v)}
    if isinstance(v, types.ModuleType):
        return {"k": "module", "name": v.__name__}
    if isinstance(v, types.MethodType):
        owner = v.__self__ if isinstance(v.__self__, type) else type(v.__self__)
        return {"k": "method", "cls": ref_of(owner), "name": v.__func__.__name__, "func": ref_of(v.__func__)}
    if isinstance(v, types.FunctionType):
        return {"k": "func", "ref": ref_of(v)}
    if dataclasses.is_dataclass(v) and not isinstance(v, type):
        return {
            "k": "obj",
            "cls": ref_of(type(v)),
            "fields": {f.name: dump(getattr(v, f.name), depth + 1) for f in dataclasses.fields(v)},
        }
    if isinstance(v, tuple) and hasattr(v, "_fields"):
        return {"k": "obj", "cls": ref_of(type(v)), "fields": {n: dump(getattr(v, n), depth + 1) for n in v._fields}}
    if isinstance(v, (list, tuple)):
        return {"k": "list" if isinstance(v, list) else "tuple", "items": [dump(x, depth + 1) for x in v]}
    if isinstance(v, dict):
        return {"k": "dict", "items": [[dump(k, depth + 1), dump(x, depth + 1)] for k, x in v.items()]}
    return {"k": "other", "repr": repr(v)[:80]}


def class_table(cls):
    info = {
        "ref": ref_of(cls),
        "module": cls.__module__,
        "qualname": cls.__qualname__,
        "bases": [ref_of(b) for b in cls.__bases__],
        "mro": [ref_of(b) for b in cls.__mro__],
        "is_exception": issubclass(cls, BaseException),
    }
    if dataclasses.is_dataclass(cls):
        info["dataclass"] = {
            "frozen": cls.__dataclass_params__.frozen,
            "eq": cls.__dataclass_params__.eq,
            "fields": [
                {
                    "name": f.name,
                    "init": f.init,
                    "has_default": f.default is not dataclasses.MISSING,
                    "default": dump(f.default) if f.default is not dataclasses.MISSING else None,
                    "has_factory": f.default_factory is not dataclasses.MISSING,
                }
                for f in dataclasses.fields(cls)
            ],
        }
    if issubclass(cls, enum.Enum):
        info["enum"] = {
            "int": issubclass(cls, int),
            "str": issubclass(cls, str),
            "flag": issubclass(cls, enum.Flag),
            "members": [[n, dump(m.value)] for n, m in cls.__members__.items()],
            "custom_missing": "_missing_" in cls.__dict__,
        }
        if info["enum"]["custom_missing"] and issubclass(cls, int):
            # probe the live class: does a pseudo member made by _missing_ keep its integer value?
            probe = next(v for v in range(200, 100000) if v not in {m.value for m in cls})
            try:
                info["enum"]["missing_keeps_int"] = int(cls(probe)) == probe
            except Exception:
                info["enum"]["missing_keeps_int"] = True
    if issubclass(cls, tuple) and hasattr(cls, "_fields"):
        info["namedtuple"] = {
            "fields": list(cls._fields),
            "defaults": {k: dump(v) for k, v in getattr(cls, "_field_defaults", {}).items()},
        }
    attrs = {}
    methods = {}
    for name, v in cls.__dict__.items():
        if name.startswith("__") and name.endswith("__") and name not in (
            "__init__", "__bool__", "__enter__", "__exit__", "__aenter__", "__aexit__", "__len__", "__post_init__",
        ):
            continue
        if isinstance(v, classmethod):
            methods[name] = {"kind": "classmethod", "func": ref_of(v.__func__)}
        elif isinstance(v, staticmethod):
            methods[name] = {"kind": "staticmethod", "func": ref_of(v.__func__)}
        elif isinstance(v, property):
            methods[name] = {"kind": "property", "func": ref_of(v.fget)}
        elif isinstance(v, types.FunctionType):
            if v.__module__.startswith(PKG):
                methods[name] = {"kind": "function", "func": ref_of(v)}
        elif isinstance(v, (types.MemberDescriptorType, types.GetSetDescriptorType)):
            continue
        elif dataclasses.is_dataclass(cls) and name in {f.name for f in dataclasses.fields(cls)}:
            continue
        elif name in ("_member_names_", "_member_map_", "_value2member_map_", "_unhashable_values_", "_member_type_",
                      "_value_repr_", "_use_args_", "_new_member_", "_generate_next_value_", "_flag_mask_",
                      "_singles_mask_", "_all_bits_", "_boundary_", "_inverted_", "_field_defaults", "_fields",
                      "__match_args__", "_abc_impl") or (issubclass(cls, enum.Enum) and name in cls.__members__):
            continue
        else:
            d = dump(v)
            if d["k"] != "other":
                attrs[name] = d
    info["attrs"] = attrs
    info["methods"] = methods
    return info


def main():
    pkg = importlib.import_module(PKG)
    mods = {}
    names = [PKG]
    for m in pkgutil.walk_packages(pkg.__path__, PKG + "."):
        names.append(m.name)
    classes = {}
    for name in names:
        mod = importlib.import_module(name)
        g = {}
        for k, v in vars(mod).items():
            if k.startswith("__"):
                continue
            g[k] = dump(v)
            if isinstance(v, type) and v.__module__.startswith(PKG):
                classes[ref_of(v)] = v
        mods[name] = {"file": getattr(mod, "__file__", None), "globals": g}
    # nested / referenced classes (bases inside the package)
    out_classes = {r: class_table(c) for r, c in classes.items()}
    json.dump({"python": sys.version, "modules": mods, "classes": out_classes}, sys.stdout)


if __name__ == "__main__":
    main()
