"""Python-semantics models of builtins, stdlib functions and methods of builtin values (DESIGN 2.6).

Trusted, differentially tested against CPython by the G2 guard (tests/g2_builtins.py).
External libraries (cryptography, spnego, dns, socket, asyncio, os.urandom, time) are NOT here: they are
assumed contracts in /verif/contracts/externs.py and are dispatched through registry.externs.
"""
from __future__ import annotations

import ast
import re as _re
import uuid as _uuid

import z3

from . import rope as R
from .interp import DictVal, EnumerateVal, MapVal, RangeVal
from .smt import Z, blen, conc_int, fresh_int, fresh_str, is_bool_term, is_int_term, simp
from .values import (
    BoundMethod,
    Builtin,
    ClassRef,
    EngineError,
    FuncRef,
    Lambda,
    ModuleRef,
    OutOfReach,
    PathEnd,
    SBytes,
    SEnum,
    SExc,
    SList,
    SObj,
    SRef,
    SStr,
    SUUID,
    SView,
)

POW256 = z3.Function("POW256", z3.IntSort(), z3.IntSort())


class FloatDiv:
    """a / b for integers. exact=True: the binary64 result is exact (power-of-two divisor, |a| < 2**53). exact=False: a
    correctly rounded quotient of a >= 0 by a positive constant; only int() of it is modelled, by sound bounds (b_int)."""

    def __init__(self, num, den, exact=True):
        self.num, self.den, self.exact = num, den, exact


class RegexVal:
    def __init__(self, pattern, flags=0):
        self.pattern = pattern
        self.flags = flags


class SuperProxy:
    def __init__(self, obj, after_cls):
        self.obj = obj
        self.after = after_cls


def call_builtin(I, fn: Builtin, args, kwargs):
    name = fn.name
    ext = I.registry.externs.get(name)
    if ext is not None:
        I.extern_calls.add(name)
        return ext(I, fn, args, kwargs)
    if name.startswith("m:"):
        return call_method(I, fn.bound, name[2:], args, kwargs)
    if name.startswith("ref:"):
        h = I.registry.extern_methods.get(name[4:])
        if h is None:
            raise OutOfReach(f"external method {name[4:]} has no assumed contract")
        I.extern_calls.add(name[4:])
        return h(I, fn.bound, args, kwargs)
    h = BUILTINS.get(name)
    if h is None:
        import builtins as _pb

        cls = getattr(_pb, name, None)
        if isinstance(cls, type) and issubclass(cls, BaseException):
            from .interp import builtin_exc

            return builtin_exc(name, tuple(args))
    if h is None and (name.startswith(("other:<Logger ", "other:<RootLogger ")) or name.startswith("logging.")):
        # logging has no effect on any value the contracts speak about (arguments were already evaluated by the interpreter)
        meth = name.rsplit(".", 1)[-1]
        if meth in ("debug", "info", "warning", "warn", "error", "exception", "critical", "log"):
            return None
        if meth == "isEnabledFor":
            from .smt import fresh_bool

            return fresh_bool("log_enabled")
        if meth == "getLogger":
            return Builtin("other:<Logger created-in-function>")
    if h is None:
        raise OutOfReach(f"builtin/external {name} is not modelled")
    return h(I, args, kwargs)


# ------------------------------------------------------------------------------------------------ functions


def b_len(I, args, kw):
    (v,) = args
    if isinstance(v, (SBytes, SView)):
        return I.bytes_len(v)
    if isinstance(v, (list, tuple, str)):
        return len(v)
    if isinstance(v, DictVal):
        return len(v.items)
    if isinstance(v, SList):
        return v.length
    if isinstance(v, SStr):
        from .interp import STRLEN

        n = STRLEN(v.term)
        I.ctx.assume(n >= 0)
        return n
    if isinstance(v, SObj):
        if v.cls.namedtuple:
            return len(v.cls.namedtuple["fields"])
        m = I.P.method(v.cls, "__len__")
        if m:
            return I.call_repo(m[0], [v], {})
    raise OutOfReach(f"len of {type(v).__name__}")


def b_int(I, args, kw):
    if not args:
        return 0
    v = args[0]
    if isinstance(v, FloatDiv):
        # truncation toward zero of an exact quotient
        a, b = v.num, v.den
        if isinstance(a, int):
            return int(a / b)
        if not I.ctx.entails(Z(a) >= 0):
            raise OutOfReach("int() of a possibly negative float quotient")
        if v.exact:
            return simp(Z(a) / b)
        # binary64: a and b are converted (each correctly rounded), the quotient is correctly rounded, int() truncates.
        # For 0 <= a < 2**52 and 0 < b < 2**52 both conversions are exact and the rounded quotient cannot reach the next
        # integer (distance >= 1/b > (n+1) * 2**-53), so int(a / b) == a // b. Otherwise only bounds are known: the relative
        # error of the quotient is below 2**-51, so the result is within 1 + q/2**50 of q = a // b (A-PY: sound bounds, not
        # the exact rounding - a clause that needs the exact value is then refuted or undischarged, never wrongly proved).
        q = I.ctx.div(Z(a), b)
        if b < 2**52 and I.ctx.entails(Z(a) < 2**52):
            return q
        r = fresh_int("float_quot")
        slack = I.ctx.div(q, 2**50)
        I.ctx.assume(z3.And(r >= Z(q) - 1 - Z(slack), r <= Z(q) + 1 + Z(slack), r >= 0))
        return r
    if isinstance(v, (bool, int)):
        return int(v)
    if is_int_term(v):
        return v
    if is_bool_term(v):
        return simp(z3.If(v, 1, 0))
    if isinstance(v, SEnum):
        return I.as_int(v)
    if isinstance(v, str):
        if len(args) > 1 or kw:
            raise OutOfReach("int(str, base)")
        try:
            return int(v)
        except ValueError:
            I.raise_("ValueError")
    if isinstance(v, SStr):
        t = v.term
        if z3.is_app(t) and t.decl().name() == "STR_OF_INT":
            return t.arg(0)  # int(str(n)) == n
    h = I.registry.hooks.get("int_of_str")
    if isinstance(v, SStr) and h is not None:
        return h(I, v)
    raise OutOfReach(f"int() of {type(v).__name__}")


def b_bool(I, args, kw):
    if not args:
        return False
    return I.truth(args[0])


def _ints_to_rope(I, items):
    segs = []
    for x in items:
        x = I.as_int(x)
        if isinstance(x, int):
            if not 0 <= x <= 255:
                I.raise_("ValueError")
            segs.append(R.Lit(bytes([x])))
        else:
            if I.branch(simp(z3.Or(Z(x) < 0, Z(x) > 255))):
                I.raise_("ValueError")
            segs.append(R.IntSeg(x, 1, "little", True))
    return R.Rope(segs)


def _bytes_ctor(kind):
    def f(I, args, kw):
        if not args:
            return SBytes(R.Rope(), kind)
        v = args[0]
        if I.is_byteslike(v):
            rope = I.rope_of(v)
            I.ctx.tick("copied", 0)
            _copied(I, rope)
            return SBytes(rope, kind)
        if isinstance(v, (list, tuple)):
            return SBytes(_ints_to_rope(I, v), kind)
        if I.is_intlike(v):
            n = I.as_int(v)
            if isinstance(n, int):
                if n < 0:
                    I.raise_("ValueError")
                return SBytes(R.Rope.lit(b"\x00" * n) if n <= 65536 else R.Rope([R.Zeros(n)]), kind)
            if I.branch(Z(n) < 0):
                I.raise_("ValueError")
            _copied_n(I, n)
            return SBytes(R.Rope([R.Zeros(n)]), kind)
        raise OutOfReach(f"{kind}() of {type(v).__name__}")

    return f


def _copied(I, rope):
    _copied_n(I, rope.length())


def _copied_n(I, n):
    g = I.ctx.ghost
    cur = g.get("copied", 0)
    if isinstance(cur, int) and isinstance(n, int):
        g["copied"] = cur + n
    else:
        g["copied"] = simp(Z(cur) + Z(n))


def b_memoryview(I, args, kw):
    (v,) = args
    if isinstance(v, SView):
        return v
    if isinstance(v, SBytes):
        if v.kind == "bytearray":
            return SView(v, 0, v.rope.length())
        return SBytes(v.rope, "memoryview")
    raise OutOfReach(f"memoryview of {type(v).__name__}")


def b_str(I, args, kw):
    if not args:
        return ""
    v = args[0]
    if isinstance(v, (str, SStr)):
        return v
    if isinstance(v, bool) or v is None:
        return str(v)
    if isinstance(v, int):
        return str(v)
    if is_int_term(v):
        from .smt import Str

        f = z3.Function("STR_OF_INT", z3.IntSort(), Str)
        return SStr(f(v))
    if isinstance(v, SRef):
        h = I.registry.extern_attr(I, v, "__str__")
        if h is not NotImplemented:
            return h
    return SStr(fresh_str("str"))


def b_list(I, args, kw):
    if not args:
        return []
    v = args[0]
    if isinstance(v, SList):
        return v
    return list(I.iter_values(v))


def b_tuple(I, args, kw):
    if not args:
        return ()
    return tuple(I.iter_values(args[0]))


def b_map(I, args, kw):
    fn, it = args
    return MapVal(fn, it)


def b_range(I, args, kw):
    a = [I.as_int(x) for x in args]
    if len(a) == 1:
        return RangeVal(0, a[0], 1)
    if len(a) == 2:
        return RangeVal(a[0], a[1], 1)
    return RangeVal(a[0], a[1], a[2])


def b_enumerate(I, args, kw):
    start = kw.get("start", args[1] if len(args) > 1 else 0)
    return EnumerateVal(args[0], start)


def class_matches(I, v, c):
    """isinstance(v, c) as bool."""
    if isinstance(c, tuple):
        return any(class_matches(I, v, x) for x in c)
    if isinstance(c, ClassRef):
        if isinstance(v, SObj):
            return c.cls.ref in v.cls.mro
        if isinstance(v, SEnum):
            return c.cls.ref in v.cls.mro
        if isinstance(v, SExc):
            return v.isinstance_of(c.cls.ref)
        return False
    if isinstance(c, Builtin):
        n = c.name
        if n == "int":
            return I.is_intlike(v)
        if n == "bool":
            return isinstance(v, bool) or is_bool_term(v)
        if n == "str":
            return isinstance(v, (str, SStr)) or (isinstance(v, SEnum) and v.cls.enum["str"])
        if n == "bytes":
            return isinstance(v, SBytes) and v.kind == "bytes"
        if n == "bytearray":
            return isinstance(v, SBytes) and v.kind == "bytearray"
        if n == "memoryview":
            return isinstance(v, SView) or (isinstance(v, SBytes) and v.kind == "memoryview")
        if n == "list":
            return isinstance(v, (list, SList))
        if n == "tuple":
            return isinstance(v, tuple) or (isinstance(v, SObj) and bool(v.cls.namedtuple))
        if n == "dict":
            return isinstance(v, DictVal)
    raise OutOfReach(f"isinstance against {c!r}")


def b_isinstance(I, args, kw):
    v, c = args
    return class_matches(I, v, c)


def b_type(I, args, kw):
    (v,) = args
    if isinstance(v, (SObj, SEnum)):
        return ClassRef(v.cls)
    return Builtin("type:" + type(v).__name__)


def b_sorted(I, args, kw):
    seq = args[0]
    key = kw.get("key")
    rev = kw.get("reverse", False)
    if not isinstance(rev, bool):
        raise OutOfReach("sorted(reverse=<symbolic>)")
    if isinstance(seq, SList):
        return sorted_slist(I, seq, key, rev)
    items = list(I.iter_values(seq))
    keys = [I.call_value(key, [x], {}) if key is not None else x for x in items]
    # stable insertion sort with forking comparisons (lists are short in this code base)
    out = []
    for x, k in zip(items, keys):
        pos = len(out)
        for j in range(len(out) - 1, -1, -1):
            if I.truthy(_lt(I, out[j][1], k) if rev else _lt(I, k, out[j][1])):
                pos = j
            else:
                break
        out.insert(pos, (x, k))
    return [x for x, _ in out]


def _lt(I, a, b):
    """a < b for ints and tuples of ints (lexicographic), bool or z3 Bool."""
    if isinstance(a, tuple) and isinstance(b, tuple):
        if not a or not b:
            return len(a) < len(b)
        first = I.compare(ast.Lt(), a[0], b[0])
        eq0 = I.eq(a[0], b[0])
        rest = _lt(I, a[1:], b[1:])
        return I._or([first, I._and([eq0, rest])])
    return I.compare(ast.Lt(), a, b)


def b_pow(I, args, kw):
    if len(args) == 3:
        h = I.registry.externs.get("pow3")
        if h is None:
            raise OutOfReach("pow(a, b, m) has no assumed contract")
        return h(I, None, args, kw)
    a, b = (I.as_int(x) for x in args)
    if isinstance(a, int) and isinstance(b, int) and b >= 0:
        return a**b
    raise OutOfReach("symbolic pow")


def b_divmod(I, args, kw):
    a, b = args
    if not (I.is_intlike(a) and I.is_intlike(b)) or kw:
        raise OutOfReach("divmod of non-integers")
    return (I.int_binop(ast.FloorDiv(), I.as_int(a), I.as_int(b)), I.int_binop(ast.Mod(), I.as_int(a), I.as_int(b)))


def b_min(I, args, kw):
    items = list(args) if len(args) > 1 else I.iter_values(args[0])
    best = items[0]
    for x in items[1:]:
        if I.truthy(I.compare(ast.Lt(), x, best)):
            best = x
    return best


def b_max(I, args, kw):
    items = list(args) if len(args) > 1 else I.iter_values(args[0])
    best = items[0]
    for x in items[1:]:
        if I.truthy(I.compare(ast.Gt(), x, best)):
            best = x
    return best


def b_from_bytes(I, args, kw):
    data = args[0]
    order = kw.get("byteorder", args[1] if len(args) > 1 else "big")
    signed = kw.get("signed", False)
    if not isinstance(order, str) or not isinstance(signed, bool):
        raise OutOfReach("symbolic byteorder/signed")
    if isinstance(data, (list, tuple)):
        rope = _ints_to_rope(I, data)
    else:
        rope = I.rope_of(data)
    try:
        return R.to_int(I.ctx, rope, order, signed)
    except NotImplementedError as e:
        raise OutOfReach(str(e))


def int_to_bytes(I, x, args, kw):
    x = I.as_int(x)
    n = kw.get("length", args[0] if args else 1)
    order = kw.get("byteorder", args[1] if len(args) > 1 else "big")
    signed = kw.get("signed", False)
    if not isinstance(order, str) or not isinstance(signed, bool):
        raise OutOfReach("symbolic byteorder/signed")
    n = I.as_int(n)
    nc = conc_int(n)
    if nc is not None:
        n = nc
        if n < 0:
            I.raise_("ValueError")
        lo, hi = (-(256**n) // 2, 256**n // 2) if signed else (0, 256**n)
        if isinstance(x, int):
            if not lo <= x < hi:
                I.raise_("OverflowError")
            return SBytes(R.Rope.lit(x.to_bytes(n, order, signed=signed)))
        if I.branch(simp(z3.Or(Z(x) < lo, Z(x) >= hi))):
            I.raise_("OverflowError")
        if n == 0:
            return SBytes(R.Rope())
        if signed:
            x = simp(z3.If(Z(x) < 0, Z(x) + 256**n, Z(x)))
        return SBytes(R.Rope([R.IntSeg(x, n, order, True)]))  # in range on this (non-raising) path
    # symbolic width (FFC DH / ECDH fixed-width fields)
    if signed:
        raise OutOfReach("signed to_bytes of symbolic width")
    if I.branch(Z(n) < 0):
        I.raise_("ValueError")
    p = POW256(Z(n))
    I.ctx.assume(p >= 1)
    if I.branch(simp(z3.Or(Z(x) < 0, Z(x) >= p))):
        I.raise_("OverflowError")
    t = R.INTB(Z(x), Z(n), 0 if order == "little" else 1)
    I.ctx.assume(blen(t) == Z(n))
    I.ctx.assume((R.VAL_LE if order == "little" else R.VAL_BE)(t) == Z(x))
    return SBytes(R.Rope([R.full_atom(t)]))


_STRUCT_SIZES = {"B": (1, False), "b": (1, True), "H": (2, False), "h": (2, True), "I": (4, False), "i": (4, True), "L": (4, False), "l": (4, True),
                 "Q": (8, False), "q": (8, True)}


def _struct_fields(fmt):
    """(byte order, [(size, signed), ...]) for formats made of an explicit byte-order prefix and fixed-size integer codes
    (standard sizes, no padding). A bare "B"/"b" sequence needs no prefix. Anything else is outside the model."""
    if not isinstance(fmt, str) or not fmt:
        raise OutOfReach(f"struct format {fmt!r}")
    order = None
    body = fmt
    if fmt[0] in "<>!=":
        order = "little" if fmt[0] == "<" else "big"
        body = fmt[1:]
        if fmt[0] == "=":
            order = "little"
    fields = []
    for ch in body:
        if ch not in _STRUCT_SIZES:
            raise OutOfReach(f"struct format {fmt!r}")
        fields.append(_STRUCT_SIZES[ch])
    if order is None:
        if any(sz != 1 for sz, _ in fields):
            raise OutOfReach(f"struct format {fmt!r} (native alignment)")
        order = "little"
    return order, fields


def b_struct_unpack(I, args, kw):
    fmt, data = args
    order, fields = _struct_fields(fmt)
    total = sum(sz for sz, _ in fields)
    n = I.bytes_len(data)
    if isinstance(n, int):
        if n != total:
            I.raise_("struct.error")
    elif I.branch(Z(n) != total):
        I.raise_("struct.error")
    rope = I.rope_of(data)
    out, off = [], 0
    for sz, signed in fields:
        out.append(R.to_int(I.ctx, R.slice_norm(I.ctx, rope, off, off + sz), order, signed))
        off += sz
    return tuple(out)


def b_struct_pack(I, args, kw):
    fmt, vals = args[0], args[1:]
    order, fields = _struct_fields(fmt)
    if len(vals) != len(fields):
        I.raise_("struct.error")
    rope = R.Rope()
    for (sz, signed), v in zip(fields, vals):
        if not I.is_intlike(v):
            I.raise_("struct.error")
        v = I.as_int(v)
        lo, hi = (-(256**sz) // 2, 256**sz // 2) if signed else (0, 256**sz)
        if isinstance(v, int):
            if not lo <= v < hi:
                I.raise_("struct.error")
            rope = rope + R.Rope.lit(v.to_bytes(sz, order, signed=signed))
            continue
        if I.branch(simp(z3.Or(Z(v) < lo, Z(v) >= hi))):
            I.raise_("struct.error")
        if signed:
            v = simp(z3.If(Z(v) < 0, Z(v) + 256**sz, Z(v)))
        rope = rope + R.Rope([R.IntSeg(v, sz, order, True)])
    return SBytes(rope)


def b_math_ceil(I, args, kw):
    (v,) = args
    if isinstance(v, FloatDiv) and v.exact:
        a, b = v.num, v.den
        if isinstance(a, int):
            return -((-a) // b)
        return simp(-((-Z(a)) / b))
    if I.is_intlike(v):
        return I.as_int(v)
    raise OutOfReach("math.ceil of a non-exact float")


def true_div(I, a, b):
    a, b = I.as_int(a), I.as_int(b)
    bc = conc_int(b)
    if bc is None or bc <= 0:
        raise OutOfReach("true division (float) by something other than a positive constant")
    pow2 = not (bc & (bc - 1))
    if isinstance(a, int):
        if abs(a) >= 2**53 or not pow2:
            raise OutOfReach("true division of a concrete integer that is not exact in binary64")
        return FloatDiv(a, bc)
    if pow2 and I.ctx.entails(z3.And(Z(a) > -(2**53), Z(a) < 2**53)):
        return FloatDiv(a, bc)
    if I.ctx.entails(Z(a) >= 0):
        return FloatDiv(a, bc, exact=False)  # a rounded quotient: only int() of it is modelled (sound bounds)
    raise OutOfReach("true division: operand not provably non-negative or within the exact float range")


def b_uuid(I, args, kw):
    if "bytes_le" in kw:
        data = kw["bytes_le"]
        n = I.bytes_len(data)
        if isinstance(n, int):
            if n != 16:
                I.raise_("ValueError")
        elif I.branch(Z(n) != 16):
            I.raise_("ValueError")
        return SUUID(I.rope_of(data))
    if args and isinstance(args[0], str) and not kw:
        try:
            return SUUID(R.Rope.lit(_uuid.UUID(args[0]).bytes_le))
        except ValueError:
            I.raise_("ValueError")
    if "int" in kw and isinstance(kw["int"], int):
        return SUUID(R.Rope.lit(_uuid.UUID(int=kw["int"]).bytes_le))
    raise OutOfReach("uuid.UUID constructor form")


def b_object_setattr(I, args, kw):
    obj, name, v = args
    if not isinstance(obj, SObj) or not isinstance(name, str):
        raise OutOfReach("object.__setattr__")
    obj.fields[name] = v
    return None


def b_re_compile(I, args, kw):
    if not isinstance(args[0], str):
        raise OutOfReach("symbolic regex")
    return RegexVal(args[0])


def b_super(I, args, kw):
    if args:
        raise OutOfReach("super with arguments")
    fr = I.frames[-1]
    if fr.fi.cls_ref is None:
        raise OutOfReach("super outside a method")
    first = fr.fi.node.args.args[0].arg
    obj = fr.env.vars[first]
    return SuperProxy(obj, fr.fi.cls_ref)


def b_getattr(I, args, kw):
    obj, name = args[0], args[1]
    if not isinstance(name, str):
        raise OutOfReach("getattr with a symbolic name")
    try:
        return I.getattr(obj, name)
    except EngineError:
        if len(args) > 2:
            return args[2]
        I.raise_("AttributeError")


BUILTINS = {
    "len": b_len,
    "int": b_int,
    "bool": b_bool,
    "bytes": _bytes_ctor("bytes"),
    "bytearray": _bytes_ctor("bytearray"),
    "memoryview": b_memoryview,
    "str": b_str,
    "list": b_list,
    "tuple": b_tuple,
    "map": b_map,
    "range": b_range,
    "enumerate": b_enumerate,
    "isinstance": b_isinstance,
    "type": b_type,
    "sorted": b_sorted,
    "pow": b_pow,
    "min": b_min,
    "divmod": b_divmod,
    "max": b_max,
    "int.from_bytes": b_from_bytes,
    "struct.unpack": b_struct_unpack,
    "struct.pack": b_struct_pack,
    "math.ceil": b_math_ceil,
    "uuid.UUID": b_uuid,
    "object.__setattr__": b_object_setattr,
    "re.compile": b_re_compile,
    "super": b_super,
    "getattr": b_getattr,
}


# ------------------------------------------------------------------------------------------------ methods


def call_method(I, obj, name, args, kw):
    if isinstance(obj, SuperProxy):
        cls = obj.obj.cls
        mro = cls.mro
        i = mro.index(obj.after)
        for ref in mro[i + 1 :]:
            c = I.P.classes.get(ref)
            if c is None:
                continue
            m = c.methods.get(name)
            if m is not None:
                fi = I.P.funcs.get(m["func"])
                if fi is None:
                    break
                return I.call_repo(fi, [obj.obj] + list(args), kw)
        if name == "__init__":
            return None
        raise OutOfReach(f"super().{name}")
    if I.is_intlike(obj):
        if name == "to_bytes":
            return int_to_bytes(I, obj, args, kw)
        if name == "bit_length" and isinstance(obj, int):
            return obj.bit_length()
        if name == "bit_length":
            # uninterpreted BITLEN(x) with what is needed about it: it is 0 exactly for 0, and the byte count ceil(BITLEN/8) is the
            # minimal width of |x| in base 256 (POW256 is the uninterpreted 256**n)
            x = I.as_int(obj)
            if I.branch(Z(x) < 0):
                raise OutOfReach("bit_length of a negative symbolic integer")
            f = z3.Function("BITLEN", z3.IntSort(), z3.IntSort())
            bl = f(Z(x))
            nb = I.ctx.div(bl + 7, 8)
            I.ctx.assume(z3.And(bl >= 0, (bl == 0) == (Z(x) == 0), POW256(Z(nb)) >= 1, Z(x) < POW256(Z(nb)),
                                z3.Implies(Z(nb) >= 1, z3.And(Z(x) >= POW256(Z(nb) - 1), POW256(Z(nb) - 1) >= 1))))
            return bl
        raise OutOfReach(f"int.{name}")
    if isinstance(obj, (SBytes, SView)):
        return bytes_method(I, obj, name, args, kw)
    if isinstance(obj, (str, SStr)):
        return str_method(I, obj, name, args, kw)
    if isinstance(obj, list):
        return list_method(I, obj, name, args, kw)
    if hasattr(obj, "pyvc_method"):
        return obj.pyvc_method(I, name, args, kw)
    if isinstance(obj, DictVal):
        if name == "get":
            return obj.get(I, args[0], args[1] if len(args) > 1 else None)
        if name == "setdefault":
            return obj.setdefault(I, args[0], args[1] if len(args) > 1 else None)
        if name == "items":
            return [(k, v) for k, v in obj.items]
        if name == "keys":
            return [k for k, _ in obj.items]
        if name == "values":
            return [v for _, v in obj.items]
        raise OutOfReach(f"dict.{name}")
    if isinstance(obj, RegexVal):
        return regex_method(I, obj, name, args, kw)
    if isinstance(obj, tuple) and name in ("index", "count"):
        raise OutOfReach("tuple method")
    if isinstance(obj, SObj) and obj.cls.namedtuple and name == "_replace":
        f = dict(obj.fields)
        f.update(kw)
        return SObj(obj.cls, f)
    raise OutOfReach(f"method {name} of {type(obj).__name__}")


def bytes_method(I, obj, name, args, kw):
    if name == "tobytes":
        rope = I.rope_of(obj)
        _copied(I, rope)
        return SBytes(rope, "bytes")
    if name == "decode":
        codec = args[0] if args else kw.get("encoding", "utf-8")
        _copied(I, I.rope_of(obj))
        return I.decode(obj, codec)
    if name == "join":
        parts = I.iter_values(args[0])
        sep = I.rope_of(obj)
        rope = R.Rope()
        for i, p in enumerate(parts):
            if not I.is_byteslike(p):
                I.raise_("TypeError")
            if i and sep.segs:
                rope = rope + sep
            rope = rope + I.rope_of(p)
        _copied(I, rope)
        return SBytes(rope, "bytearray" if getattr(obj, "kind", "") == "bytearray" else "bytes")
    if name in ("append", "extend", "reverse") and isinstance(obj, SBytes) and obj.kind == "bytearray":
        if name == "append":
            obj.rope = obj.rope + _ints_to_rope(I, [args[0]])
            return None
        if name == "extend":
            v = args[0]
            if isinstance(v, (list, tuple)):
                obj.rope = obj.rope + _ints_to_rope(I, v)
            else:
                obj.rope = obj.rope + I.rope_of(v)
                _copied(I, I.rope_of(v))
            return None
        if name == "reverse":
            c = obj.rope.concrete()
            if c is not None:
                obj.rope = R.Rope.lit(c[::-1])
                return None
            segs = []
            for s in reversed(obj.rope.segs):
                if isinstance(s, R.Lit):
                    segs.append(R.Lit(s.data[::-1]))
                elif isinstance(s, R.IntSeg):
                    segs.append(R.IntSeg(s.x, s.n, "big" if s.order == "little" else "little"))
                elif isinstance(s, R.Zeros):
                    segs.append(s)
                else:
                    raise OutOfReach("reverse of an opaque bytearray")
            obj.rope = R.Rope(segs)
            return None
    if name in ("rjust", "ljust", "zfill") and 1 <= len(args) <= 2 and not kw:
        # pad with one fill byte up to `width` (no change when already at least that long); only the zero fill byte has a rope
        # segment of symbolic length, other fill bytes need a concrete amount of padding
        width = I.as_int(args[0])
        fill = b"0" if name == "zfill" else (I.rope_of(args[1]).concrete() if len(args) > 1 else b" ")
        if name == "zfill" or fill is None or len(fill) != 1:
            raise OutOfReach(f"bytes.{name} with this fill")
        rope = I.rope_of(obj)
        n = rope.length()
        if I.branch(Z(width) <= Z(n)):
            return SBytes(rope, "bytearray" if getattr(obj, "kind", "") == "bytearray" else "bytes")
        k = simp(Z(width) - Z(n))
        kc = conc_int(k)
        if fill == b"\x00":
            pad = R.Rope([R.Zeros(kc if kc is not None else k)])
        elif kc is not None and kc <= 4096:
            pad = R.Rope.lit(fill * kc)
        else:
            raise OutOfReach(f"bytes.{name} with a symbolic amount of non-zero padding")
        out = (pad + rope) if name == "rjust" else (rope + pad)
        _copied(I, out)
        return SBytes(out, "bytearray" if getattr(obj, "kind", "") == "bytearray" else "bytes")
    if name == "replace":
        h = I.registry.hooks.get("bytes_replace")
        old, new = args[0], args[1]
        rope = I.rope_of(obj)
        c, co, cn = rope.concrete(), I.rope_of(old).concrete(), I.rope_of(new).concrete()
        if c is not None and co is not None and cn is not None:
            return SBytes(R.Rope.lit(c.replace(co, cn)))
        if co == b"\x00" and cn == b"":
            # drop zero bytes: result is empty iff every byte is zero
            n = rope.length()
            if isinstance(n, int) and n <= 8:
                bs = []
                for s in rope.segs:
                    bs.extend(R._seg_bytes(I.ctx, s))
                out = []
                for b in bs:
                    if isinstance(b, int):
                        if b:
                            out.append(R.Lit(bytes([b])))
                    elif I.branch(Z(b) != 0):
                        out.append(R.IntSeg(b, 1, "little"))
                return SBytes(R.Rope(out))
            nz = z3.Function("NONZERO", R.Bytes, z3.BoolSort())
            t = R.to_term(I.ctx, rope)
            if I.branch(nz(t)):
                fr = z3.Function("STRIP0", R.Bytes, R.Bytes)(t)
                I.ctx.assume(z3.And(blen(fr) >= 1, blen(fr) <= blen(t)))
                return SBytes(R.Rope([R.full_atom(fr)]))
            return SBytes(R.Rope())
        raise OutOfReach("bytes.replace")
    if name == "hex":
        return SStr(fresh_str("hex"))
    if name == "startswith":
        p = I.rope_of(args[0])
        n = p.length()
        return R.eq(I.ctx, R.py_slice(I.ctx, I.rope_of(obj), 0, n), p)
    if name == "rjust" or name == "ljust":
        raise OutOfReach("bytes.rjust")
    raise OutOfReach(f"bytes.{name}")


def str_method(I, obj, name, args, kw):
    if name == "encode":
        codec = args[0] if args else kw.get("encoding", "utf-8")
        return I.encode(obj, codec)
    if isinstance(obj, str):
        conc_args = all(isinstance(a, (str, int)) for a in args)
        if name in ("split", "rstrip", "lstrip", "strip", "startswith", "endswith", "lower", "upper", "rsplit", "isdigit") and conc_args:
            return getattr(obj, name)(*args)
        if name == "join" and isinstance(args[0], SList):
            # a string of unknown content (its length is not needed by any contract)
            j = fresh_int("join_j")
            I.ctx.assume(z3.And(j >= 0, j < Z(args[0].length)))
            if not I.ctx.entails(Z(args[0].length) <= 0) and not isinstance(args[0].elem(j), (str, SStr)):
                I.raise_("TypeError")
            return SStr(fresh_str("joined"))
        if name == "join":
            parts = I.iter_values(args[0])
            if all(isinstance(p, str) for p in parts):
                return obj.join(parts)
            seq = []
            for i, p in enumerate(parts):
                if i and obj:
                    seq.append(obj)
                seq.append(p)
            return I.strcat(seq)
        if name == "format":
            return SStr(fresh_str("fmt"))
    if name == "split" and isinstance(obj, SStr) and len(args) == 1 and isinstance(args[0], str) and args[0] == ".":
        parts = split_dotted(I, obj.term)
        if parts is not None:
            return parts
    h = I.registry.hooks.get("str_method")
    if h is not None:
        r = h(I, obj, name, args, kw)
        if r is not NotImplemented:
            return r
    if name == "startswith" and isinstance(args[0], str):
        f = z3.Function("STARTSWITH", I.str_term(obj).sort(), I.str_term(obj).sort(), z3.BoolSort())
        return f(I.str_term(obj), I.str_term(args[0]))
    if name == "rstrip" and args and isinstance(args[0], str):
        f = z3.Function("RSTRIP_" + args[0].encode().hex(), I.str_term(obj).sort(), I.str_term(obj).sort())
        return SStr(f(I.str_term(obj)))
    raise OutOfReach(f"str.{name} on a symbolic string")


IDXMARK = z3.Function("IDXMARK", z3.IntSort(), z3.BoolSort())


def fresh_index(I, n, name="j"):
    """An arbitrary index 0 <= j < n (for universally quantified obligations); marked so that quantified
    builtin contracts (sorted: surjectivity) instantiate on it."""
    j = fresh_int(name)
    I.ctx.assume(z3.And(j >= 0, j < Z(n), IDXMARK(j)))
    return j


def slist_append(I, lst: SList, x):
    n = lst.length
    old = lst.elem

    def elem(j, old=old, n=n, x=x):
        jc, nc = conc_int(j), conc_int(n)
        if jc is not None and nc is not None:
            return x if jc == nc else old(j)
        if I.ctx.entails(Z(j) == Z(n)):
            return x
        if I.ctx.entails(Z(j) != Z(n)):
            return old(j)
        return x if I.branch(Z(j) == Z(n)) else old(j)

    return SList(simp(Z(n) + 1), elem)


def sorted_slist(I, seq: SList, key, reverse=False):
    """Assumed contract of sorted() on a list of arbitrary length n: the result is seq composed with a permutation
    PI of 0..n-1 (PI maps into range; SIG is its right inverse, so every input occurs) and is pairwise
    non-decreasing in the key (lexicographic on tuples). Stability is not needed by any caller and not stated."""
    n = seq.length
    from .smt import fresh_name

    PI = z3.Function(fresh_name("PI"), z3.IntSort(), z3.IntSort())
    SIG = z3.Function(fresh_name("SIG"), z3.IntSort(), z3.IntSort())
    a, b = z3.Ints("srt!a srt!b")
    rng = lambda k: z3.And(k >= 0, k < Z(n))  # noqa: E731
    I.ctx.assume(z3.ForAll([a], z3.Implies(rng(a), rng(PI(a))), patterns=[PI(a)]))
    I.ctx.assume(z3.ForAll([a], z3.Implies(z3.And(rng(a), IDXMARK(a)), z3.And(rng(SIG(a)), PI(SIG(a)) == a)), patterns=[IDXMARK(a)]))
    ka = I.call_value(key, [seq.elem(PI(a))], {}) if key is not None else seq.elem(PI(a))
    kb = I.call_value(key, [seq.elem(PI(b))], {}) if key is not None else seq.elem(PI(b))
    le = I._not(_lt(I, ka, kb) if reverse else _lt(I, kb, ka))  # reverse=True: pairwise non-increasing
    I.ctx.assume(z3.ForAll([a, b], z3.Implies(z3.And(a >= 0, a <= b, b < Z(n)), Z(le)), patterns=[z3.MultiPattern(PI(a), PI(b))]))
    out = SList(n, lambda k: seq.elem(PI(Z(k))))
    out.perm = PI
    return out


def split_dotted(I, term):
    """s.split(".") for s = ".".join(str(n_i)): the decimal strings (canonical decimals contain no dot)."""
    from .smt import str_lit
    from .values import STRCAT

    dot = str_lit(".")
    parts = []

    def is_num(t):
        return z3.is_app(t) and t.decl().name() == "STR_OF_INT"

    t = term
    while True:
        if is_num(t):
            parts.append(SStr(t))
            break
        if not (z3.is_app(t) and t.decl().eq(STRCAT)):
            return None
        left, right = t.arg(0), t.arg(1)
        if not is_num(right):
            return None
        parts.append(SStr(right))
        if not (z3.is_app(left) and left.decl().eq(STRCAT) and left.arg(1).eq(dot)):
            return None
        t = left.arg(0)
    parts.reverse()
    return parts


def list_method(I, obj, name, args, kw):
    if name == "append":
        obj.append(args[0])
        return None
    if name == "extend":
        obj.extend(I.iter_values(args[0]))
        return None
    if name == "reverse":
        obj.reverse()
        return None
    if name == "insert" and isinstance(args[0], int):
        obj.insert(args[0], args[1])
        return None
    if name == "sort" and not args and set(kw) <= {"key", "reverse"}:
        obj[:] = b_sorted(I, [list(obj)], kw)
        return None
    if name == "pop":
        if not obj:
            I.raise_("IndexError")
        return obj.pop(*[a for a in args if isinstance(a, int)])
    raise OutOfReach(f"list.{name}")


def regex_method(I, rx, name, args, kw):
    if name not in ("match", "fullmatch", "search"):
        raise OutOfReach(f"regex.{name}")
    s = args[0]
    if isinstance(s, str):
        m = getattr(_re.compile(rx.pattern, rx.flags), name)(s)
        return None if m is None else Builtin("re.Match", bound=m)
    h = I.registry.hooks.get("regex_match")
    if h is not None:
        return h(I, rx, name, s)
    raise OutOfReach("regex match on a symbolic string")
