"""Contracts for the MS-GKDI structure codecs (C11) and the key identifier (C11, C06).

Each `pack` is proved equal to a spec rope written from MS-GKDI 2.2.1-2.2.4 / 3.1.4.1 (NDR64), each `unpack`
is proved to return the value whose spec rope it is given (all field values and byte lengths symbolic)."""
import z3

from pyvc import rope as R
from pyvc.builtins import POW256
from pyvc.contracts import T
from pyvc.smt import Bytes, Str, Z, blen, fresh_bytes, fresh_int, str_lit
from pyvc.values import STRCAT, SBytes, SObj, SStr, SUUID

from . import REG

U32 = T.int(0, 2**32 - 1)


def u16z(c, s):
    """null-terminated UTF-16-LE string"""
    if isinstance(s, str):
        return SBytes(R.Rope.lit((s + "\0").encode("utf-16-le")))
    return c.I.encode(SStr(STRCAT(s.term, str_lit("\0"))), "utf-16-le")


def be_sym(c, x, n):
    """big-endian encoding of x in exactly n bytes (n symbolic); meaningful for 0 <= x < 256**n"""
    t = R.INTB(Z(x), Z(n), 1)
    c.assume(blen(t) == Z(n))
    c.assume(R.VAL_BE(t) == Z(x))
    return SBytes(R.Rope([R.full_atom(t)]))


def fits(c, x, n):
    p = POW256(Z(n))
    c.assume(p >= 1)
    return z3.And(Z(x) >= 0, Z(x) < p)


def uf_fields(I, tag, data_term, spec):
    """Fields of the value decoded from an opaque byte string: functions of the data (call-mode results)."""
    out = {}
    for name, kind in spec.items():
        if kind == "int":
            out[name] = z3.Function(f"{tag}.{name}", Bytes, z3.IntSort())(data_term)
        elif kind == "str":
            out[name] = SStr(z3.Function(f"{tag}.{name}", Bytes, Str)(data_term))
        elif kind == "bytes":
            t = z3.Function(f"{tag}.{name}", Bytes, Bytes)(data_term)
            I.ctx.assume(blen(t) >= 0)
            out[name] = SBytes(R.Rope([R.full_atom(t)]))
        elif kind == "uuid":
            t = z3.Function(f"{tag}.{name}", Bytes, Bytes)(data_term)
            I.ctx.assume(blen(t) == 16)
            out[name] = SUUID(R.Rope([R.full_atom(t, 16)]))
    return out


def class_param(c, cls_name):
    """The `cls` argument of a classmethod."""
    from pyvc.values import ClassRef

    return c.param("cls", T.const(ClassRef(c.I.P.find_class(cls_name))))


# ================================================================================================ KDFParameters (2.2.1)
def kdf_parameters_rope(c, name):
    b_name = u16z(c, name)
    return c.rope(b"\x00\x00\x00\x00\x01\x00\x00\x00", c.le(c.len(b_name), 4), b"\x00\x00\x00\x00", b_name)


@REG.contract("dpapi_ng._gkdi.KDFParameters.pack", props=["C11"], inline=True)
def kdfp_pack(c):
    self_ = c.param("self", T.obj("KDFParameters", hash_name=T.Str))
    name = self_.fields["hash_name"]
    c.requires(Z(c.len(u16z(c, name))) < 2**32, "name-length-fits-32-bits")
    c.returns(kdf_parameters_rope(c, name))
    c.raises_only(set())


@REG.contract("dpapi_ng._gkdi.KDFParameters.unpack", props=["C11"], inline=True)
def kdfp_unpack(c):
    class_param(c, "KDFParameters")
    if c.verifying:
        name = c.fresh(T.Str, "hash_name")
        c.assume(Z(c.len(u16z(c, name))) < 2**32)
        c.param("data", T.const(kdf_parameters_rope(c, name)))
        c.ensures("decodes-the-encoded-value", lambda r: c.eq(r.fields["hash_name"], name))
        c.raises_only(set())
    else:
        data = c.param("data")
        t = R.to_term(c.ctx, c.I.rope_of(data))
        c.raises("ValueError", when=None)
        c.returns(SObj(c.I.P.find_class("KDFParameters"), uf_fields(c.I, "KDFP", t, {"hash_name": "str"})))


# ================================================================================================ FFC DH parameters (2.2.2)
def ffcdh_parameters_rope(c, n, p, g):
    return c.rope(c.le(12 + Z(n) + Z(n), 4), b"DHPM", c.le(n, 4), be_sym(c, p, n), be_sym(c, g, n))


def ffc_wf(c, n, *vals):
    return z3.And(Z(n) >= 0, 12 + 2 * Z(n) < 2**32, *[fits(c, v, n) for v in vals])


@REG.contract("dpapi_ng._gkdi.FFCDHParameters.pack", props=["C11"])
def ffcp_pack(c):
    s = c.param("self", T.obj("FFCDHParameters", key_length=T.Int, field_order=T.Int, generator=T.Int))
    n, p, g = (s.fields[k] for k in ("key_length", "field_order", "generator"))
    if not c.verifying and all(isinstance(v, int) for v in (n, p, g)):
        c.inline_instead()  # a literal group (load_key's default): the body computes the literal bytes
    c.requires(ffc_wf(c, n, p, g), "well-formed")
    c.returns(ffcdh_parameters_rope(c, n, p, g))
    c.raises_only(set())


@REG.contract("dpapi_ng._gkdi.FFCDHParameters.unpack", props=["C11"])
def ffcp_unpack(c):
    class_param(c, "FFCDHParameters")
    if c.verifying:
        n, p, g = (c.fresh(T.Int, k) for k in ("key_length", "field_order", "generator"))
        c.assume(ffc_wf(c, n, p, g))
        c.param("data", T.const(ffcdh_parameters_rope(c, n, p, g)))
        c.ensures("decodes-the-encoded-value", lambda r: [c.eq(r.fields["key_length"], n), c.eq(r.fields["field_order"], p), c.eq(r.fields["generator"], g)])
        c.raises_only(set())
    else:
        data = c.param("data")
        t = R.to_term(c.ctx, c.I.rope_of(data))
        c.raises("ValueError", when=None)
        c.returns(SObj(c.I.P.find_class("FFCDHParameters"), {**uf_fields(c.I, "FFCP", t, {"key_length": "int", "field_order": "int", "generator": "int"}), "magic": SBytes(R.Rope.lit(b"DHPM"))}))


# ================================================================================================ FFC DH key (2.2.3.1)
def ffcdh_key_rope(c, n, p, g, y):
    return c.rope(b"DHPB", c.le(n, 4), be_sym(c, p, n), be_sym(c, g, n), be_sym(c, y, n))


@REG.contract("dpapi_ng._gkdi.FFCDHKey.pack", props=["C11", "C03"])
def ffck_pack(c):
    s = c.param("self", T.obj("FFCDHKey", key_length=T.Int, field_order=T.Int, generator=T.Int, public_key=T.Int))
    n, p, g, y = (s.fields[k] for k in ("key_length", "field_order", "generator", "public_key"))
    ok = z3.And(Z(n) >= 0, Z(n) < 2**32, fits(c, p, n), fits(c, g, n), fits(c, y, n))
    # fixed-width big-endian fields: leading zero bytes are kept; a value that does not fit is an error, never truncated
    c.raises("OverflowError", when=z3.And(Z(n) >= 0, z3.Not(ok)))
    c.raises("ValueError", when=Z(n) < 0)
    c.raises_only({"OverflowError", "ValueError"})
    c.returns(ffcdh_key_rope(c, n, p, g, y))


def ffck_any_post(f):
    """what FFCDHKey.unpack returns for ANY bytes: every integer was read from at most key_length bytes"""
    from pyvc.builtins import POW256

    p = POW256(Z(f["key_length"]))
    return z3.And(Z(f["key_length"]) >= 0, Z(f["key_length"]) < 2**32, p >= 1, *[z3.And(Z(f[k]) >= 0, Z(f[k]) < p) for k in ("field_order", "generator", "public_key")])


def eck_any_post(f):
    return z3.And(Z(f["key_length"]) >= 0, Z(f["key_length"]) < 2**32, Z(f["x"]) >= 0, Z(f["y"]) >= 0)


@REG.contract("dpapi_ng._gkdi.FFCDHKey.unpack", props=["C11", "C03", "C05"])
def ffck_unpack(c):
    class_param(c, "FFCDHKey")
    if c.verifying:
        n, p, g, y = (c.fresh(T.Int, k) for k in ("key_length", "field_order", "generator", "public_key"))
        c.assume(z3.And(Z(n) >= 0, Z(n) < 2**32, fits(c, p, n), fits(c, g, n), fits(c, y, n)))
        c.param("data", T.const(ffcdh_key_rope(c, n, p, g, y)))
        c.ensures("decodes-the-encoded-value", lambda r: [c.eq(r.fields[k], v) for k, v in (("key_length", n), ("field_order", p), ("generator", g), ("public_key", y))])
        c.raises_only(set())
    else:
        data = c.param("data")
        t = R.to_term(c.ctx, c.I.rope_of(data))
        c.raises("ValueError", when=None)
        f = uf_fields(c.I, "FFCK", t, {"key_length": "int", "field_order": "int", "generator": "int", "public_key": "int"})
        c.assume(ffck_any_post(f))  # verified on arbitrary bytes: FFCDHKey.unpack#arbitrary-bytes (C05)
        c.returns(SObj(c.I.P.find_class("FFCDHKey"), {**f, "magic": SBytes(R.Rope.lit(b"DHPB"))}))


# ================================================================================================ ECDH key (2.2.3.2)
CURVES = {"P256": b"ECK1", "P384": b"ECK3", "P521": b"ECK5"}


def ecdh_key_rope(c, curve: str, n, x, y):
    return c.rope(CURVES[curve], c.le(n, 4), be_sym(c, x, n), be_sym(c, y, n))


def _curve_case(c):
    return ["P256", "P384", "P521"][c.ctx.choose(3, "curve")]


@REG.contract("dpapi_ng._gkdi.ECDHKey.pack", props=["C11", "C03"])
def eck_pack(c):
    if c.verifying:
        curve = _curve_case(c)
        s = c.param("self", T.obj("ECDHKey", curve_name=T.const(curve), key_length=T.Int, x=T.Int, y=T.Int))
    else:
        s = c.param("self")
        curve = s.fields["curve_name"]
        if not isinstance(curve, str):
            # symbolic curve name: case split over the curves the writer knows (any other name is the writer's ValueError)
            found = None
            for k in CURVES:
                if c.ctx.branch(curve.term == str_lit(k)):
                    found = k
                    break
            if found is None:
                c.raises("ValueError", when=True)
                c.returns(c.rope())
                return
            curve = found
    n, x, y = (s.fields[k] for k in ("key_length", "x", "y"))
    ok = z3.And(Z(n) >= 0, Z(n) < 2**32, fits(c, x, n), fits(c, y, n))
    c.raises("OverflowError", when=z3.And(Z(n) >= 0, z3.Not(ok)))
    c.raises("ValueError", when=Z(n) < 0)
    c.raises_only({"OverflowError", "ValueError"})
    c.returns(ecdh_key_rope(c, curve, n, x, y))


@REG.contract("dpapi_ng._gkdi.ECDHKey.unpack", props=["C11", "C03", "C05"])
def eck_unpack(c):
    class_param(c, "ECDHKey")
    if c.verifying:
        curve = _curve_case(c)
        n, x, y = (c.fresh(T.Int, k) for k in ("key_length", "x", "y"))
        c.assume(z3.And(Z(n) >= 0, Z(n) < 2**32, fits(c, x, n), fits(c, y, n)))
        c.param("data", T.const(ecdh_key_rope(c, curve, n, x, y)))
        c.ensures("decodes-the-encoded-value", lambda r: [c.eq(r.fields["curve_name"], curve)] + [c.eq(r.fields[k], v) for k, v in (("key_length", n), ("x", x), ("y", y))])
        c.raises_only(set())
    else:
        data = c.param("data")
        t = R.to_term(c.ctx, c.I.rope_of(data))
        c.raises("ValueError", when=None)
        f = uf_fields(c.I, "ECK", t, {"key_length": "int", "x": "int", "y": "int", "curve_name": "str"})
        c.assume(eck_any_post(f))  # verified on arbitrary bytes: ECDHKey.unpack#arbitrary-bytes (C05)
        c.assume(z3.Or(*[f["curve_name"].term == str_lit(k) for k in CURVES]))
        c.returns(SObj(c.I.P.find_class("ECDHKey"), {**f, "magic": SBytes(R.Rope.lit(b"ECK"))}))


# ================================================================================================ Group key envelope (2.2.4)
GKE_INTS = ("version", "flags", "l0", "l1", "l2", "private_key_length", "public_key_length")


def gke_fresh(c, prefix="e"):
    f = {k: c.fresh(U32, f"{prefix}.{k}") for k in GKE_INTS}
    f["root_key_identifier"] = c.fresh(T.UUID, f"{prefix}.rkid")
    for k in ("kdf_algorithm", "secret_algorithm", "domain_name", "forest_name"):
        f[k] = c.fresh(T.Str, f"{prefix}.{k}")
    for k in ("kdf_parameters", "secret_parameters", "l1_key", "l2_key"):
        f[k] = c.fresh(T.Bytes, f"{prefix}.{k}")
    return f


def gke_wf(c, f):
    conj = [z3.And(Z(f[k]) >= 0, Z(f[k]) < 2**32) for k in GKE_INTS]
    for k in ("kdf_algorithm", "secret_algorithm", "domain_name", "forest_name"):
        conj.append(Z(c.len(u16z(c, f[k]))) < 2**32)
    for k in ("kdf_parameters", "secret_parameters", "l1_key", "l2_key"):
        conj.append(Z(c.len(f[k])) < 2**32)
    return z3.And(*conj)


def gke_rope(c, f):
    """MS-GKDI 2.2.4 in field order; all integers 32-bit little-endian; names null-terminated UTF-16-LE"""
    ka, sa, dn, fn = (u16z(c, f[k]) for k in ("kdf_algorithm", "secret_algorithm", "domain_name", "forest_name"))
    return c.rope(
        c.le(f["version"], 4), b"KDSK", c.le(f["flags"], 4), c.le(f["l0"], 4), c.le(f["l1"], 4), c.le(f["l2"], 4),
        f["root_key_identifier"],
        c.le(c.len(ka), 4), c.le(c.len(f["kdf_parameters"]), 4), c.le(c.len(sa), 4), c.le(c.len(f["secret_parameters"]), 4),
        c.le(f["private_key_length"], 4), c.le(f["public_key_length"], 4),
        c.le(c.len(f["l1_key"]), 4), c.le(c.len(f["l2_key"]), 4), c.le(c.len(dn), 4), c.le(c.len(fn), 4),
        ka, f["kdf_parameters"], sa, f["secret_parameters"], dn, fn, f["l1_key"], f["l2_key"],
    )


@REG.contract("dpapi_ng._gkdi.GroupKeyEnvelope.pack", props=["C11"])
def gke_pack(c):
    if c.verifying:
        f = gke_fresh(c)
        s = c.param("self", T.const(SObj(c.I.P.find_class("GroupKeyEnvelope"), {**f, "magic": SBytes(R.Rope.lit(b"KDSK"))})))
    else:
        s = c.param("self")
        f = s.fields
    c.requires(gke_wf(c, f), "well-formed")
    c.returns(gke_rope(c, f))
    c.raises_only(set())


GKE_UF = {**{k: "int" for k in GKE_INTS}, "root_key_identifier": "uuid", "kdf_algorithm": "str", "secret_algorithm": "str", "domain_name": "str",
          "forest_name": "str", "kdf_parameters": "bytes", "secret_parameters": "bytes", "l1_key": "bytes", "l2_key": "bytes"}


def gke_of_opaque(c, data):
    t = R.to_term(c.ctx, c.I.rope_of(data))
    f = uf_fields(c.I, "GKE", t, GKE_UF)
    for k in GKE_INTS:
        c.assume(z3.And(f[k] >= 0, f[k] < 2**32))
    return SObj(c.I.P.find_class("GroupKeyEnvelope"), {**f, "magic": SBytes(R.Rope.lit(b"KDSK"))})


@REG.contract("dpapi_ng._gkdi.GroupKeyEnvelope.unpack", props=["C11"])
def gke_unpack(c):
    class_param(c, "GroupKeyEnvelope")
    if c.verifying:
        f = gke_fresh(c)
        c.assume(gke_wf(c, f))
        c.param("data", T.const(gke_rope(c, f)))
        c.ensures("decodes-the-encoded-value", lambda r: [c.eq(r.fields[k], f[k]) for k in GKE_UF])
        c.raises_only(set())
    else:
        data = c.param("data")
        c.raises("ValueError", when=None)
        c.returns(gke_of_opaque(c, data))


# ================================================================================================ GetKey (3.1.4.1), NDR64
def getkey_request_rope(c, sd, rkid, l0, l1, l2):
    n = c.len(sd)
    pad = c.mod(-Z(n), 8)
    # pRootKeyID is a unique pointer: referent id + GUID, or a null pointer
    ptr = c.rope(b"\x00\x00\x02\x00\x00\x00\x00\x00", rkid) if rkid is not None else c.rope(b"\x00" * 8)
    return c.rope(
        c.le(n, 8),  # cbTargetSD (ULONG), padded to the 8-byte alignment of the conformant array that follows
        c.le(n, 8),  # maximum count of pbTargetSD
        sd,
        c.zeros(pad),  # array padded to a multiple of 8
        ptr,
        c.le(l0, 4), c.le(l1, 4), c.le(l2, 4),  # LONG, two's complement
    )


def _i32(x):
    return z3.And(Z(x) >= -(2**31), Z(x) < 2**31)


@REG.contract("dpapi_ng._gkdi.GetKey.pack", props=["C11", "C17"])
def getkey_pack(c):
    s = c.param("self", T.obj("GetKey", target_sd=T.Bytes, root_key_id=T.opt(T.UUID), l0_key_id=T.Int, l1_key_id=T.Int, l2_key_id=T.Int))
    f = s.fields
    ok = z3.And(_i32(f["l0_key_id"]), _i32(f["l1_key_id"]), _i32(f["l2_key_id"]))
    c.raises("OverflowError", when=z3.Not(ok))
    c.raises_only({"OverflowError"})
    c.returns(getkey_request_rope(c, f["target_sd"], f["root_key_id"], f["l0_key_id"], f["l1_key_id"], f["l2_key_id"]))


@REG.contract("dpapi_ng._gkdi.GetKey.unpack", props=["C11"])
def getkey_unpack(c):
    class_param(c, "GetKey")
    sd = c.fresh(T.Bytes, "sd")
    rkid = c.fresh(T.opt(T.UUID), "rkid")
    l0, l1, l2 = (c.fresh(T.Int, k) for k in ("l0", "l1", "l2"))
    c.assume(z3.And(_i32(l0), _i32(l1), _i32(l2), Z(c.len(sd)) < 2**32))
    c.param("data", T.const(getkey_request_rope(c, sd, rkid, l0, l1, l2)))
    c.ensures("decodes-the-encoded-value", lambda r: [c.eq(r.fields["target_sd"], sd), c.eq(r.fields["root_key_id"], rkid), c.eq(r.fields["l0_key_id"], l0), c.eq(r.fields["l1_key_id"], l1), c.eq(r.fields["l2_key_id"], l2)])
    c.raises_only(set())


def getkey_reply_rope(c, env, hresult, referent):
    n = c.len(env)
    return c.rope(c.le(n, 4), b"\x00" * 4, referent, c.le(n, 8), env, c.zeros(c.mod(-Z(n), 4)), c.le(hresult, 4))


@REG.contract("dpapi_ng._gkdi.GetKey.unpack_response", props=["C11", "C17"])
def getkey_unpack_response(c):
    class_param(c, "GetKey")
    if c.verifying:
        env = c.fresh(T.Bytes, "envelope")
        hres = c.fresh(U32, "hresult")
        ref = c.fresh(T.bytes(8), "referent")
        c.assume(Z(c.len(env)) < 2**32)
        c.param("data", T.const(getkey_reply_rope(c, env, hres, ref)))
        c.raises("ValueError", when=Z(hres) != 0)  # a failed call never yields key material
        c.raises("ValueError", when=None, label="optional")  # GroupKeyEnvelope.unpack may reject the envelope
        c.raises_only({"ValueError"})
        c.ensures("decodes-exactly-the-envelope-bytes", lambda r: c.eq(r, gke_of_opaque(c, env)))
    else:
        data = c.param("data")
        t = R.to_term(c.ctx, c.I.rope_of(data))
        c.raises("ValueError", when=None)
        ENV = z3.Function("GETKEY_REPLY.envelope", Bytes, Bytes)(t)
        c.assume(blen(ENV) >= 0)
        c.returns(gke_of_opaque(c, SBytes(R.Rope([R.full_atom(ENV)]))))


# ================================================================================================ Key identifier (blob)
KID_INTS = ("version", "flags", "l0", "l1", "l2")


def kid_fresh(c, prefix="k"):
    f = {k: c.fresh(U32, f"{prefix}.{k}") for k in KID_INTS}
    f["root_key_identifier"] = c.fresh(T.UUID, f"{prefix}.rkid")
    f["key_info"] = c.fresh(T.Bytes, f"{prefix}.key_info")
    f["domain_name"] = c.fresh(T.Str, f"{prefix}.domain_name")
    f["forest_name"] = c.fresh(T.Str, f"{prefix}.forest_name")
    return f


def kid_wf(c, f):
    return z3.And(*[z3.And(Z(f[k]) >= 0, Z(f[k]) < 2**32) for k in KID_INTS], Z(c.len(f["key_info"])) < 2**32,
                  Z(c.len(u16z(c, f["domain_name"]))) < 2**32, Z(c.len(u16z(c, f["forest_name"]))) < 2**32)


def kid_rope(c, f):
    dn, fn = u16z(c, f["domain_name"]), u16z(c, f["forest_name"])
    return c.rope(
        c.le(f["version"], 4), b"KDSK", c.le(f["flags"], 4), c.le(f["l0"], 4), c.le(f["l1"], 4), c.le(f["l2"], 4), f["root_key_identifier"],
        c.le(c.len(f["key_info"]), 4), c.le(c.len(dn), 4), c.le(c.len(fn), 4), f["key_info"], dn, fn,
    )


@REG.contract("dpapi_ng._blob.KeyIdentifier.pack", props=["C11", "C06"], inline=True)
def kid_pack(c):
    if c.verifying:
        f = kid_fresh(c)
        s = c.param("self", T.const(SObj(c.I.P.find_class("KeyIdentifier"), {**f, "magic": SBytes(R.Rope.lit(b"KDSK"))})))
    else:
        s = c.param("self")
        f = s.fields
    c.requires(kid_wf(c, f), "well-formed")
    c.returns(kid_rope(c, f))
    c.raises_only(set())


KID_UF = {**{k: "int" for k in KID_INTS}, "root_key_identifier": "uuid", "key_info": "bytes", "domain_name": "str", "forest_name": "str"}


def kid_of_opaque(c, data):
    t = R.to_term(c.ctx, c.I.rope_of(data))
    f = uf_fields(c.I, "KID", t, KID_UF)
    for k in KID_INTS:
        c.assume(z3.And(f[k] >= 0, f[k] < 2**32))
    return SObj(c.I.P.find_class("KeyIdentifier"), {**f, "magic": SBytes(R.Rope.lit(b"KDSK"))})


@REG.contract("dpapi_ng._blob.KeyIdentifier.unpack", props=["C11", "C06"])
def kid_unpack(c):
    class_param(c, "KeyIdentifier")
    if not c.verifying:
        from .c_asn1 import opaque

        if not opaque(c.I.rope_of(c.param("data"))):
            c.inline_instead()  # structured bytes (C06): the body is executed on them
    if c.verifying:
        f = kid_fresh(c)
        c.assume(kid_wf(c, f))
        c.param("data", T.const(kid_rope(c, f)))
        c.ensures("decodes-the-encoded-value", lambda r: [c.eq(r.fields[k], f[k]) for k in KID_UF])
        c.raises_only(set())
    else:
        data = c.param("data")
        c.raises("ValueError", when=None)
        c.returns(kid_of_opaque(c, data))
