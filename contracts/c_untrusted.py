"""Contracts for the offline decryption pipeline on UNTRUSTED bytes (C05): only deliberate error types escape, loops
terminate, key-derivation work is bounded."""
import z3

from pyvc import rope as R
from pyvc.contracts import T
from pyvc.smt import Bytes, Str, Z, blen, fresh_bool, fresh_bytes, fresh_int, fresh_str
from pyvc.values import ClassRef, SBytes, SEnum, SList, SObj, SStr, SView

from . import REG
from .c_asn1 import OPAQUE_SUMMARY, TYPE_TAG_MEMBERS, cls_, header_obj, tagclass

NED = "dpapi_ng._asn1:NotEnougData"
PARSE_ERRORS = {"ValueError", NED}  # UnicodeDecodeError is a ValueError
ALLOWED = {"ValueError", "NotImplementedError", NED, "cryptography.exceptions.InvalidTag", "cryptography.hazmat.primitives.keywrap.InvalidUnwrap"}


def L(c, v):
    return Z(c.len(v))


BLOB_K, BLOB_B = 160, 800  # DPAPINGBlob.unpack: steps <= 160 * len(data) + 800
ENV_K_ = 140  # = ENV_K below (steps per octet of the recipient SET; see the cost constants of the CMS parsers)


def steps(s):
    """steps (calls + loop iterations) since the loop was entered"""
    return Z(s.ticks) - Z(s.at_entry.ticks)


def annotate_asn1_loops(c):
    """Loop annotations for the ASN.1 decoders on arbitrary bytes: indices stay within the data (safety), variants for the
    `while` loops (termination)."""

    def none_list(I_, cur, s):
        return SList(fresh_int("n_items"), lambda j: fresh_int("item"))

    # _unpack_asn1_octet_number: while True: ... idx += 1 ... break when the continuation bit is clear
    # (cost: one step per octet read)
    c.loop(0, target="dpapi_ng._asn1._unpack_asn1_octet_number", invariant=lambda s: [Z(s.idx) >= 0, Z(s.idx) <= L(c, s.data), Z(s.i) >= 0, steps(s) <= Z(s.idx)],
           variant=lambda s: L(c, s.data) - Z(s.idx))
    # _read_asn1_header: long-form length octets
    # (s._i is the loop index: every earlier index was checked to lie within the view)
    c.loop(0, target="dpapi_ng._asn1._read_asn1_header", invariant=lambda s: [Z(s.length) >= 0, L(c, s.view) >= Z(s._i), steps(s) <= Z(s._i) - 1])

    # _read_asn1_integer: complement loop, carry loop (in place on b_int), Horner loop
    c.loop(0, target="dpapi_ng._asn1._read_asn1_integer", invariant=lambda s: [steps(s) <= Z(s._i)])
    c.loop(1, target="dpapi_ng._asn1._read_asn1_integer", invariant=lambda s: [steps(s) <= Z(s._i)])
    c.loop(2, target="dpapi_ng._asn1._read_asn1_integer", invariant=lambda s: [Z(s.int_value) >= 0, steps(s) <= Z(s._i)])
    # _read_asn1_object_identifier: one sub-identifier (>= 1 octet) per iteration
    # (cost: per sub-identifier one iteration, one call and one step per octet: at most 3 steps per octet consumed)
    c.loop(0, target="dpapi_ng._asn1._read_asn1_object_identifier", invariant=lambda s: [Z(s.idx) >= 1, Z(s.idx) <= L(c, s.raw_oid), steps(s) <= 3 * (Z(s.idx) - 1)],
           variant=lambda s: L(c, s.raw_oid) - Z(s.idx), havoc={"ids": none_list})
    # EnvelopedData.unpack: one RecipientInfo (a TLV of >= 2 octets) per iteration
    c.loop(0, target="dpapi_ng._pkcs7.EnvelopedData.unpack", invariant=lambda s: [steps(s) <= ENV_K_ * (L(c, s.at_entry.recipient_infos_reader.fields["_view"]) - L(c, s.recipient_infos_reader.fields["_view"])),
                                                                                    (not s.has("info")) or (is_kek_recipient(s.info) and c.And(*[L(c, x) <= L(c, s.at_entry.recipient_infos_reader.fields["_view"]) for x in bytes_leaves(s.info, RECIPIENT_SHAPE)])), L(c, s.recipient_infos_reader.fields["_view"]) <= L(c, s.at_entry.recipient_infos_reader.fields["_view"])],
           variant=lambda s: L(c, s.recipient_infos_reader.fields["_view"]), havoc={"recipient_infos": lambda I_, cur, s: recipient_list(c, L(c, s.at_entry.recipient_infos_reader.fields["_view"]))},
           havoc_heap=[lambda I_, s: s.recipient_infos_reader.fields.__setitem__("_view", _shrunk_view(I_, s.recipient_infos_reader.fields["_view"]))])


OPT = object()
RECIPIENT_SHAPE = ("KEKRecipientInfo", {"version": int, "encrypted_key": bytes,
                                        "kekid": ("KEKIdentifier", {"key_identifier": bytes, "date": (OPT, str), "other": (OPT, ("OtherKeyAttribute", {"key_attr_id": str, "key_attr": (OPT, bytes)}))}),
                                        "key_encryption_algorithm": ("AlgorithmIdentifier", {"algorithm": str, "parameters": (OPT, bytes)})})


def has_shape(v, shape):
    """v is a value of the given shape (what the element type of the havocked list promises)"""
    if shape is int:
        return not isinstance(v, (SObj, SBytes, SStr, str, bool)) and v is not None
    if shape is bytes:
        return isinstance(v, SBytes) and v.kind == "bytes"
    if shape is str:
        return isinstance(v, (str, SStr))
    if shape[0] is OPT:
        return v is None or has_shape(v, shape[1])
    if shape[0] == "list":
        return isinstance(v, SList) and getattr(v, "elem_shape", None) == shape[1]
    name, fields = shape
    return isinstance(v, SObj) and v.cls.name == name and all(has_shape(v.fields.get(k), s) for k, s in fields.items())


def bytes_leaves(v, shape):
    """the bytes-valued components of a value of the shape (list elements excluded)"""
    if v is None or shape is int or shape is str:
        return []
    if shape is bytes:
        return [v]
    if shape[0] is OPT:
        return bytes_leaves(v, shape[1])
    if shape[0] == "list":
        return []
    _, fields = shape
    out = []
    for k, s in fields.items():
        out += bytes_leaves(v.fields.get(k), s)
    return out


def list_leaves(v, shape):
    if v is None or shape in (int, str, bytes):
        return []
    if shape[0] is OPT:
        return list_leaves(v, shape[1])
    if shape[0] == "list":
        return [v]
    out = []
    for k, s in shape[1].items():
        out += list_leaves(v.fields.get(k), s)
    return out


def is_kek_recipient(v):
    return has_shape(v, RECIPIENT_SHAPE)


def arbitrary_of(c, shape, name, bound=None):
    """an arbitrary value of the shape (list elements: byte strings no longer than `bound`)"""
    if shape is int:
        return c.fresh(T.Int, name)
    if shape is bytes:
        return c.fresh(T.Bytes, name)
    if shape is str:
        return c.fresh(T.Str, name)
    if shape[0] is OPT:
        return None if c.ctx.branch(fresh_bool(name + "_is_none")) else arbitrary_of(c, shape[1], name, bound)
    if shape[0] == "list":
        return recipient_list(c, bound)
    cname, fields = shape
    return SObj(cls_(c, cname), {k: arbitrary_of(c, s, f"{name}.{k}", bound) for k, s in fields.items()})


def recipient_list(c, bound=None):
    """the recipient list after any number of iterations: every element has the shape of what one iteration appends, and its byte
    strings are no longer than `bound` (both checked as part of the invariant on the value appended by the body)"""
    memo = {}

    def elem(j):
        key = str(j)
        if key not in memo:
            memo[key] = arbitrary_of(c, RECIPIENT_SHAPE, f"recipient[{key}]")
            if bound is not None:
                for x in bytes_leaves(memo[key], RECIPIENT_SHAPE):
                    c.ctx.assume(L(c, x) <= bound)
        return memo[key]

    lst = SList(c.fresh(T.int(0), "n_recipients"), elem)
    lst.elem_shape = RECIPIENT_SHAPE  # every element has this shape: the loop invariant checks it on each appended value
    lst.elem_bound = bound
    return lst


def _shrunk_view(I_, view):
    """an arbitrary suffix of the view (what the reader may have left after some iterations)"""
    rope = I_.rope_of(view)
    n = rope.length()
    k = fresh_int("consumed")
    I_.ctx.assume(z3.And(k >= 0, k <= Z(n)))
    return SBytes(R.py_slice(I_.ctx, rope, k, None), "memoryview")


# ================================================================================================ reader summaries for arbitrary bytes
I_ = z3.IntSort()
HDR_CLASS, HDR_NUM, HDR_TL, HDR_LEN = (z3.Function(n, Bytes, I_) for n in ("HDR_CLASS", "HDR_NUMBER", "HDR_TAG_LENGTH", "HDR_LENGTH"))
HDR_CONS = z3.Function("HDR_CONSTRUCTED", Bytes, z3.BoolSort())
INT_VALUE = z3.Function("DER_INT_VALUE", Bytes, I_)
OID_TEXT = z3.Function("DER_OID_TEXT", Bytes, Str)


def header_facts(c, t, n, tclass, num, tl, ln):
    return [Z(tclass) >= 0, Z(tclass) <= 3, Z(num) >= 0, Z(tl) >= 2, Z(tl) <= Z(n), Z(ln) >= 0]


def header_summary(c, data):
    """_read_asn1_header on arbitrary bytes: a header lying within the data (a FUNCTION of the bytes: parsing the same bytes
    twice gives the same header), or ValueError / NotEnougData"""
    t = R.to_term(c.ctx, c.I.rope_of(data))
    n = L(c, data)
    c.raises("ValueError", when=None)
    c.raises(NED, when=None)
    tclass, num, tl, ln = HDR_CLASS(t), HDR_NUM(t), HDR_TL(t), HDR_LEN(t)
    # facts about the RESULT: stated as postconditions, i.e. assumed only on the path that returns (on short input they are
    # unsatisfiable, and the only outcome is one of the exceptions above)
    c.ensures("header-facts", lambda r: header_facts(c, t, n, tclass, num, tl, ln))
    c.ghost_bound("ticks", tl, on_raise=n + 2)  # proved: _read_asn1_header#arbitrary-bytes
    c.assume(z3.And(tclass >= 0, tclass <= 3))  # a total function of the bytes; constrains nothing about the input
    if c.ctx.branch(tclass == 0):
        members = sorted(TYPE_TAG_MEMBERS)
        c.ensures("universal-tag-number-is-a-member", lambda r: z3.Or(*[num == m for m in members]))
        tag = SObj(cls_(c, "ASN1Tag"), {"tag_class": tagclass(c, 0), "tag_number": SEnum(cls_(c, "TypeTagNumber"), num), "is_constructed": HDR_CONS(t)})
    else:
        tag = SObj(cls_(c, "ASN1Tag"), {"tag_class": SEnum(cls_(c, "TagClass"), tclass), "tag_number": num, "is_constructed": HDR_CONS(t)})
    c.returns(SObj(cls_(c, "ASN1Header"), {"tag": tag, "tag_length": tl, "length": ln}))


def integer_summary(c, data):
    t = R.to_term(c.ctx, c.I.rope_of(data))
    c.raises("ValueError", when=None)
    c.raises(NED, when=None)
    consumed = fresh_int("int_consumed")
    c.ensures("consumed-lies-within-the-data", lambda r: z3.And(consumed >= 2, consumed <= L(c, data)))
    c.ghost_bound("ticks", 3 * consumed + 4, on_raise=3 * L(c, data) + 8)  # proved: the #arbitrary-bytes variant
    c.returns((INT_VALUE(t), consumed))


def oid_summary(c, data):
    t = R.to_term(c.ctx, c.I.rope_of(data))
    c.raises("ValueError", when=None)
    c.raises(NED, when=None)
    consumed = fresh_int("oid_consumed")
    c.ensures("consumed-lies-within-the-data", lambda r: z3.And(consumed >= 2, consumed <= L(c, data)))
    c.ghost_bound("ticks", 3 * consumed + 4, on_raise=3 * L(c, data) + 8)  # proved: the #arbitrary-bytes variant
    c.returns((SStr(OID_TEXT(t)), consumed))


OPAQUE_SUMMARY.update(header=header_summary, integer=integer_summary, oid=oid_summary)


@REG.variant("dpapi_ng._asn1._read_asn1_header", "arbitrary-bytes", props=["C05"])
def read_header_any(c):
    data = c.param("data", T.bytes(kind="memoryview"))
    n = L(c, data)
    annotate_asn1_loops(c)
    c.raises("ValueError", when=None)
    c.raises(NED, when=None)
    c.raises_only(PARSE_ERRORS)
    t0 = Z(c.ctx.ghost.get("ticks", 0))
    c.ensures("cost-at-most-one-step-per-header-octet", lambda h: Z(c.ctx.ghost["ticks"]) - t0 <= Z(h.fields["tag_length"]))
    c.ghost_bound("ticks", n + 2, on_raise=n + 2)

    def ok(h):
        f = h.fields
        t = f["tag"].fields
        tclass = c.I.as_int(t["tag_class"])
        universal = c.ctx.entails(Z(tclass) == 0)
        member = (isinstance(t["tag_number"], SEnum) and t["tag_number"].cls.name == "TypeTagNumber") if universal else (c.ctx.entails(Z(tclass) != 0) and not isinstance(t["tag_number"], SEnum))
        return header_facts(c, None, n, tclass, c.I.as_int(t["tag_number"]), f["tag_length"], f["length"]) + [member]

    c.ensures("header-lies-within-the-data", ok)


@REG.variant("dpapi_ng._asn1._unpack_asn1_octet_number", "arbitrary-bytes", props=["C05"])
def unpack_octet_number_any(c):
    data = c.param("data", T.bytes(kind="memoryview"))
    annotate_asn1_loops(c)
    c.raises(NED, when=None)
    c.raises_only({NED})
    t0 = Z(c.ctx.ghost.get("ticks", 0))
    c.ensures("consumes-at-least-one-octet-within-the-data", lambda r: [Z(r[0]) >= 0, Z(r[1]) >= 1, Z(r[1]) <= L(c, data)])
    c.ensures("cost-one-step-per-octet", lambda r: Z(c.ctx.ghost["ticks"]) - t0 <= Z(r[1]) + 1)  # +1: the call itself
    c.ghost_bound("ticks", L(c, data) + 2, on_raise=L(c, data) + 2)


def _typed_reader_any(name, loops=True):
    def spec(c):
        data = c.param("data", T.bytes(kind="memoryview"))
        annotate_asn1_loops(c)
        c.param("tag", T.const(None))
        c.raises("ValueError", when=None)
        c.raises(NED, when=None)
        c.raises_only(PARSE_ERRORS)
        t0 = Z(c.ctx.ghost.get("ticks", 0))
        c.ensures("consumed-lies-within-the-data", lambda r: [Z(r[1]) >= 2, Z(r[1]) <= L(c, data)])
        c.ensures("cost-at-most-three-steps-per-octet-consumed", lambda r: Z(c.ctx.ghost["ticks"]) - t0 <= 3 * Z(r[1]) + 4)
        c.ghost_bound("ticks", 3 * L(c, data) + 8, on_raise=3 * L(c, data) + 8)

    REG.variant(f"dpapi_ng._asn1.{name}", "arbitrary-bytes", props=["C05"])(spec)


for _n in ("_read_asn1_integer", "_read_asn1_object_identifier", "_read_asn1_octet_string", "_read_asn1_utf8_string", "_read_asn1_sequence", "_read_asn1_set", "_read_asn1_generalized_time", "_read_asn1_boolean"):
    _typed_reader_any(_n)


# ================================================================================================ CMS structure parsers on arbitrary bytes
ALGID_SHAPE = ("AlgorithmIdentifier", {"algorithm": str, "parameters": (OPT, bytes)})
OTHER_SHAPE = ("OtherKeyAttribute", {"key_attr_id": str, "key_attr": (OPT, bytes)})
KEKID_SHAPE = ("KEKIdentifier", {"key_identifier": bytes, "date": (OPT, str), "other": (OPT, OTHER_SHAPE)})
ECI_SHAPE = ("EncryptedContentInfo", {"content_type": str, "algorithm": ALGID_SHAPE, "content": (OPT, bytes)})
CONTENTINFO_SHAPE = ("ContentInfo", {"content_type": str, "content": bytes})
ENVELOPED_SHAPE = ("EnvelopedData", {"version": int, "recipient_infos": ("list", RECIPIENT_SHAPE), "encrypted_content_info": ECI_SHAPE})
SIDDESC_SHAPE = ("SIDDescriptor", {"value": str})
PARSE_NI = {"ValueError", "NotImplementedError", NED}


def arbitrary_header(c, name="header"):
    """None, or an arbitrary header value as _read_asn1_header / peek_header produce them"""
    if c.ctx.branch(fresh_bool(name + "_is_none")):
        return None
    tclass = fresh_int(name + "_class")
    c.assume(z3.And(tclass >= 0, tclass <= 3))
    num, tl, ln = fresh_int(name + "_number"), fresh_int(name + "_tag_length"), fresh_int(name + "_length")
    c.assume(z3.And(num >= 0, tl >= 2, ln >= 0))
    cons = fresh_bool(name + "_constructed")
    if c.ctx.branch(tclass == 0):
        c.assume(z3.Or(*[num == m for m in TYPE_TAG_MEMBERS]))
        tag = SObj(cls_(c, "ASN1Tag"), {"tag_class": tagclass(c, 0), "tag_number": SEnum(cls_(c, "TypeTagNumber"), num), "is_constructed": cons})
    else:
        tag = SObj(cls_(c, "ASN1Tag"), {"tag_class": SEnum(cls_(c, "TagClass"), tclass), "tag_number": num, "is_constructed": cons})
    return SObj(cls_(c, "ASN1Header"), {"tag": tag, "tag_length": tl, "length": ln})


def header_ok(c, h):
    """call-site precondition on a header argument: None or a header with tag_length >= 2 and length >= 0"""
    if h is None:
        return True
    if not (isinstance(h, SObj) and h.cls.name == "ASN1Header"):
        return False
    return z3.And(Z(h.fields["tag_length"]) >= 2, Z(h.fields["length"]) >= 0)


def unpacker(target, shape, errors, style, header_param=False, k=8, b=60):
    """Contract of a CMS structure parser on ARBITRARY bytes. Verified: only the listed (deliberate) exception types escape, every
    loop terminates, the result has the declared shape, and a reader argument is left with at least two octets fewer. Call sites
    whose bytes are opaque use exactly that as the summary; call sites with structured bytes (C06) inline the body."""
    cname = target.split(".")[-2]

    @REG.contract(target, props=["C05"])
    def spec(c):
        from .c_asn1 import opaque, reader_obj
        from .c_codecs import class_param

        if c.verifying:
            class_param(c, cname)
            data = c.fresh(T.bytes(kind="memoryview") if style == "reader" else T.Bytes, "data")
            annotate_asn1_loops(c)
            if style == "reader":
                reader = reader_obj(c, data)
                c.param("reader", T.const(reader))
            else:
                c.param("data", T.const(data))
            hdr = None
            if header_param:
                hdr = arbitrary_header(c)
                c.param("header", T.const(hdr))
                if hdr is not None:
                    c.assume(Z(hdr.fields["tag_length"]) <= L(c, data))  # a header peeked from these very bytes (call-site precondition)
            for e in sorted(errors):
                c.raises(e, when=None)
            c.raises_only(errors)
            n0 = L(c, data)
            t0 = Z(c.ctx.ghost.get("ticks", 0))

            def ok(r):
                conj = [has_shape(r, shape)]
                if style == "reader":
                    conj.append(L(c, reader.fields["_view"]) <= n0 - 2)
                    if hdr is not None:
                        conj.append(L(c, reader.fields["_view"]) <= n0 - Z(hdr.fields["tag_length"]))  # at least the peeked header is consumed
                return conj

            def cost(r):
                # steps (calls + loop iterations): linear in what was consumed (reader) / in the input (data)
                used = (n0 - L(c, reader.fields["_view"])) if style == "reader" else n0
                return Z(c.ctx.ghost["ticks"]) - t0 <= k * used + b

            def sizes(r):
                # every byte string handed back is a piece of what was consumed
                used = (n0 - L(c, reader.fields["_view"])) if style == "reader" else n0
                conj = [L(c, x) <= used for x in bytes_leaves(r, shape)]
                for lst in list_leaves(r, shape):
                    conj.append(getattr(lst, "elem_bound", None) is not None and c.ctx.entails(lst.elem_bound <= used))
                return conj or True

            c.ensures("returned-byte-strings-are-no-longer-than-what-was-consumed", sizes)

            c.ensures("declared-shape-and-progress", ok)
            c.ensures("cost-linear-in-the-bytes-consumed", cost)
            c.ghost_bound("ticks", k * n0 + b, on_raise=k * n0 + b)
            return
        arg = c.param("reader" if style == "reader" else "data")
        view = arg.fields["_view"] if style == "reader" else arg
        if not opaque(c.I.rope_of(view)):
            c.inline_instead()
        hdr = c.param("header") if header_param else None
        if header_param:
            c.requires(header_ok(c, hdr), "header-is-a-parsed-header")
            if isinstance(hdr, SObj) and style == "reader":
                c.requires(Z(hdr.fields["tag_length"]) <= L(c, view), "header-was-peeked-from-this-view")
        for e in sorted(errors):
            c.raises(e, when=None)
        n0 = L(c, view)
        if style == "reader":
            c.assume(n0 >= 0)
            t = fresh_bytes("rest_of_view")

            def consume():
                c.ctx.assume(z3.And(blen(t) >= 0, blen(t) <= n0 - 2))
                if isinstance(hdr, SObj):
                    c.ctx.assume(blen(t) <= n0 - Z(hdr.fields["tag_length"]))
                arg.fields["_view"] = SBytes(R.Rope([R.full_atom(t)]), "memoryview")

            c.effect(consume)
            c.ghost_bound("ticks", k * (n0 - blen(t)) + b, on_raise=k * n0 + b)  # proved in verify mode
        else:
            c.ghost_bound("ticks", k * n0 + b, on_raise=k * n0 + b)
        used = (n0 - blen(t)) if style == "reader" else n0
        result = arbitrary_of(c, shape, cname, bound=used)
        c.ensures("returned-byte-strings-are-no-longer-than-what-was-consumed", lambda r: [L(c, x) <= used for x in bytes_leaves(result, shape)] or True)
        c.returns(result)

    return spec


# cost constants: k steps per octet consumed + b (b covers the fixed number of calls the function makes, incl. its callees' b)
RI_B = 260  # RecipientInfo.unpack
ENV_K = 8 + (RI_B + 4) // 2  # EnvelopedData: an iteration costs at most 8*c + RI_B + 2 for c >= 2 octets consumed, i.e. at most ENV_K * c
unpacker("dpapi_ng._pkcs7.AlgorithmIdentifier.unpack", ALGID_SHAPE, PARSE_ERRORS, "reader", k=4, b=30)
unpacker("dpapi_ng._pkcs7.OtherKeyAttribute.unpack", OTHER_SHAPE, PARSE_ERRORS, "reader", header_param=True, k=4, b=30)
unpacker("dpapi_ng._pkcs7.KEKIdentifier.unpack", KEKID_SHAPE, PARSE_ERRORS, "reader", k=7, b=110)  # two peeks at bytes it may not consume
unpacker("dpapi_ng._pkcs7.KEKRecipientInfo.unpack", RECIPIENT_SHAPE, PARSE_ERRORS, "reader", header_param=True, k=7, b=220)
unpacker("dpapi_ng._pkcs7.RecipientInfo.unpack", RECIPIENT_SHAPE, PARSE_NI, "reader", k=8, b=RI_B)
unpacker("dpapi_ng._pkcs7.EncryptedContentInfo.unpack", ECI_SHAPE, PARSE_ERRORS, "reader", k=4, b=100)
unpacker("dpapi_ng._pkcs7.EnvelopedData.unpack", ENVELOPED_SHAPE, PARSE_NI, "data", k=ENV_K, b=300)
unpacker("dpapi_ng._pkcs7.ContentInfo.unpack", CONTENTINFO_SHAPE, PARSE_ERRORS, "data", header_param=True, b=60)
unpacker("dpapi_ng._blob.ProtectionDescriptor.unpack", SIDDESC_SHAPE, PARSE_ERRORS, "data", b=120)


@REG.variant("dpapi_ng._blob.DPAPINGBlob.unpack", "arbitrary-bytes", props=["C05"])
def blob_unpack_any(c):
    from .c_codecs import class_param

    class_param(c, "DPAPINGBlob")
    data = c.param("data", T.Bytes)
    annotate_asn1_loops(c)
    for e in ("ValueError", "NotImplementedError", NED):
        c.raises(e, when=None)
    c.raises_only({"ValueError", "NotImplementedError", NED})
    c.ensures("returns-a-blob", lambda r: isinstance(r, SObj) and r.cls.name == "DPAPINGBlob")
    # parser steps (calls + loop iterations) proportional to the input size, on every exit (normal or exceptional)
    c.ghost_bound("ticks", BLOB_K * L(c, data) + BLOB_B, on_raise=BLOB_K * L(c, data) + BLOB_B)


@REG.variant("dpapi_ng._blob.KeyIdentifier.unpack", "arbitrary-bytes", props=["C05"])
def kid_unpack_any(c):
    from .c_codecs import class_param

    class_param(c, "KeyIdentifier")
    data = c.param("data", T.Bytes)
    c.raises("ValueError", when=None)
    c.raises_only({"ValueError"})
    c.ghost_bound("ticks", 1, on_raise=1)  # no loop, no repo call: the summary's zero extra cost is what the body costs

    def ok(r):
        f = r.fields
        return [z3.And(Z(f[k]) >= 0, Z(f[k]) < 2**32) for k in ("version", "flags", "l0", "l1", "l2")]

    c.ensures("index-fields-are-unsigned-32-bit", ok)


@REG.variant("dpapi_ng._crypto.content_decrypt", "arbitrary-parameters", props=["C05"])
def content_decrypt_any(c):
    from .c_kek import AES256_GCM

    alg = c.fresh(T.Str, "algorithm") if c.ctx.branch(z3.Bool("other_alg")) else AES256_GCM
    c.param("algorithm", T.const(alg))
    c.param("parameters", T.opt(T.Bytes))
    c.param("cek", T.Bytes)
    c.param("value", T.Bytes)
    annotate_asn1_loops(c)
    for e in ("ValueError", "NotImplementedError", NED, "cryptography.exceptions.InvalidTag"):
        c.raises(e, when=None)
    c.raises_only({"ValueError", "NotImplementedError", NED, "cryptography.exceptions.InvalidTag"})


@REG.variant("dpapi_ng._client._decrypt_blob", "arbitrary-blob", props=["C05"])
def decrypt_blob_any(c):
    """_decrypt_blob on whatever DPAPINGBlob.unpack can return (every field attacker-chosen) with a cached seed key: only deliberate
    errors, at most 65 KDF calls."""
    from .c_cms import blob_fresh, blob_obj
    from .c_gkdi import valid_seed
    from .c_kek import seed_envelope

    f = blob_fresh(c)
    c.param("blob", T.const(blob_obj(c, f)))
    key, alg_t = seed_envelope(c, "key")
    base = fresh_bytes("base")
    key.ghost["base"] = base
    c.assume(valid_seed(c.I, alg_t, key, base))
    c.param("key", T.const(key))
    annotate_asn1_loops(c)
    for e in sorted(ALLOWED):
        c.raises(e, when=None)
    c.raises_only(ALLOWED)
    c.ghost_bound("kdf_calls", 65)


# ================================================================================================ MS-GKDI key structures on arbitrary bytes
@REG.variant("dpapi_ng._gkdi.FFCDHKey.unpack", "arbitrary-bytes", props=["C05"])
def ffck_unpack_any(c):
    from .c_codecs import class_param, ffck_any_post

    class_param(c, "FFCDHKey")
    c.param("data", T.Bytes)
    c.raises("ValueError", when=None)
    c.raises_only({"ValueError"})
    c.ensures("every-integer-fits-the-declared-key-length", lambda r: ffck_any_post(r.fields))


@REG.variant("dpapi_ng._gkdi.ECDHKey.unpack", "arbitrary-bytes", props=["C05"])
def eck_unpack_any(c):
    from .c_codecs import CURVES, class_param, eck_any_post

    class_param(c, "ECDHKey")
    c.param("data", T.Bytes)
    c.raises("ValueError", when=None)
    c.raises_only({"ValueError"})
    c.ensures("a-known-curve-and-non-negative-coordinates", lambda r: [eck_any_post(r.fields), isinstance(r.fields["curve_name"], str) and r.fields["curve_name"] in CURVES])


@REG.variant("dpapi_ng._gkdi.KDFParameters.unpack", "arbitrary-bytes", props=["C05"])
def kdfp_unpack_any(c):
    from .c_codecs import class_param

    class_param(c, "KDFParameters")
    c.param("data", T.Bytes)
    c.raises("ValueError", when=None)
    c.raises_only({"ValueError"})
