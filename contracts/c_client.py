"""Contracts for dpapi_ng._client: interval selection (C09), key cache (C10), API glue."""
import z3

from pyvc import rope as R
from pyvc.contracts import T
from pyvc.smt import Ref, Str, Z, blen, fresh_bytes, fresh_str, str_lit
from pyvc.values import STRCAT, SBytes, SObj, SStr

from . import REG
from .c_gkdi import atom, envelope, valid_seed
from .externs import HASH_CONST
from .spec import L2K, covers, in32, in_range

BASE_TICKS = 360000000000  # 3.6e11 x 100 ns = 10 hours: one L2 interval (MS-GKDI 3.1.4.1)
EPOCH_FILETIME = 116444736000000000  # 1601-01-01 -> 1970-01-01 in 100 ns units

HASHOBJ = z3.Function("HASHOBJ", Str, Ref)  # hash object selected by a KDF parameters hash name
for _n, _t in HASH_CONST.items():
    REG.axiom(HASHOBJ(str_lit(_n)) == _t, f"hash object for {_n}")


def kdf_params_rope(c, name: SStr):
    """MS-GKDI 2.2.1 KDF Parameters for a (symbolic) hash name."""
    u16z = c.I.encode(SStr(STRCAT(name.term, str_lit("\0"))), "utf-16-le")
    c.assume(Z(c.len(u16z)) < 2**32)  # well-formed: the 32-bit length field holds the length
    return c.rope(b"\x00\x00\x00\x00\x01\x00\x00\x00", c.le(c.len(u16z), 4), b"\x00\x00\x00\x00", u16z)


def interval(c, t):
    """MS-GKDI 3.1.4.1: L0, L1, L2 of the interval containing FILETIME t (floor divisions)."""
    return (c.div(t, 32 * 32 * BASE_TICKS), c.mod(c.div(t, 32 * BASE_TICKS), 32), c.mod(c.div(t, BASE_TICKS), 32))


# ------------------------------------------------------------------------------------------------ C09
@REG.contract("dpapi_ng._client._get_protection_gke_from_cache", props=["C09", "C01"])
def get_protection_gke_from_cache(c):
    I = c.I
    rkid = c.param("root_key_identifier", T.opt(T.UUID))
    sd = c.param("target_sd", T.Bytes)
    cache = c.param("cache", T.obj("KeyCache"))
    seen = {}

    def on_get_key(I_, bound):
        seen["args"] = (bound["l0"], bound["l1"], bound["l2"])
        seen["n"] = seen.get("n", 0) + 1

    I.on_call["dpapi_ng._client.KeyCache._get_key"] = on_get_key

    def now():
        ev = [d for k, d in c.ctx.trace if k == "time_ns"]
        return None if not ev else c.div(ev[0]["value"], 100) + EPOCH_FILETIME

    def post_request():
        if "args" not in seen:
            return True  # no key requested (no root key id given)
        t = now()
        if t is None:
            return False
        w0, w1, w2 = interval(c, t)
        a0, a1, a2 = seen["args"]
        return [Z(a0) == w0, Z(a1) == w1, Z(a2) == w2, seen["n"] == 1]

    c.post("request-names-current-interval", post_request)

    def post_env(r):
        if r is None:
            return True
        t = now()
        if t is None:
            return False
        w0, w1, w2 = interval(c, t)
        f = r.fields
        return [Z(f["l0"]) == w0, Z(f["l1"]) == w1, Z(f["l2"]) == w2, Z(f["l1"]) >= 0, Z(f["l1"]) <= 31, Z(f["l2"]) >= 0, Z(f["l2"]) <= 31]

    c.ensures("envelope-names-current-interval", post_env)

    def post_key(r):
        # C01: the L2 key handed to the encryption side is the TRUE chain value for the named interval
        if r is None:
            return True
        got = [d for k, d in c.ctx.trace if k == "cache_get"]
        if len(got) != 1 or got[0]["result"] is None:
            return False
        e = got[0]["result"]
        f = r.fields
        g_t = R.to_term(c.ctx, rkid.rope)
        want = L2K(HASHOBJ(e.ghost["hash_name"].term), e.ghost["base"], g_t, Z(f["l0"]), Z(f["l1"]), Z(f["l2"]))
        return [c.eq(f["l2_key"], atom(want)), c.mod(f["flags"], 2) == c.mod(e.fields["flags"], 2), c.eq(f["root_key_identifier"], rkid),
                c.eq(f["kdf_parameters"], e.fields["kdf_parameters"]), c.eq(f["kdf_algorithm"], e.fields["kdf_algorithm"])]

    c.ensures("l2-key-is-the-chain-value-of-the-named-interval", post_key)
    c.ensures("none-without-root-key-id", lambda r: True if rkid is not None else r is None)
    c.raises("ValueError", when=None)
    c.raises("NotImplementedError", when=None)
    c.raises_only({"ValueError", "NotImplementedError"})
