"""Contracts for the DCE/RPC PDU codecs in dpapi_ng._rpc (C12): pack == spec rope (C706 12.6 / MS-RPCE),
unpack is its inverse on well-formed messages. List lengths are case-split up to the stated bounds (B)."""
import z3

from pyvc import rope as R
from pyvc.contracts import T
from pyvc.smt import Z, blen, fresh_bytes, fresh_int
from pyvc.values import UNSPEC, ClassRef, SBytes, SEnum, SObj, SUUID

from . import REG
from .c_codecs import class_param

U8 = T.int(0, 255)
U16 = T.int(0, 2**16 - 1)
U32 = T.int(0, 2**32 - 1)

MAX_CONTEXTS = 2  # bounded stand-in limits for nested variable-size lists (DESIGN 5 C12)
MAX_SYNTAXES = 2
MAX_RESULTS = 3
MAX_VERSIONS = 3


def cls(c, name):
    return c.I.P.find_class(name)


def enum_val(c, cls_name, v, name=None):
    return SEnum(cls(c, cls_name), v, name)


def fresh_enum(c, cls_name, name):
    return c.fresh(T.enum(cls_name), name)


# ------------------------------------------------------------------------------------------------ DataRep
def datarep_fresh(c, prefix):
    return SObj(cls(c, "DataRep"), {
        "byte_order": fresh_enum(c, "IntegerRep", prefix + ".byte_order"),
        "character": fresh_enum(c, "CharacterRep", prefix + ".character"),
        "floating_point": fresh_enum(c, "FloatingPointRep", prefix + ".floating_point"),
    })


def datarep_rope(c, d):
    f = d.fields
    # C706 14.1: octet 0 = integer representation (high nibble) | character representation (low nibble); octet 1 = floating point; 2 reserved
    return c.rope(c.le(Z(c.I.as_int(f["byte_order"])) * 16 + Z(c.I.as_int(f["character"])), 1), c.le(c.I.as_int(f["floating_point"]), 1), b"\x00\x00")


@REG.contract("dpapi_ng._rpc._pdu.DataRep.pack", props=["C12"], inline=True)
def datarep_pack(c):
    d = c.param("self", T.const(datarep_fresh(c, "self")))
    c.returns(datarep_rope(c, d))
    c.raises_only(set())


@REG.contract("dpapi_ng._rpc._pdu.DataRep.unpack", props=["C12"], inline=True)
def datarep_unpack(c):
    class_param(c, "DataRep")
    d = datarep_fresh(c, "d")
    c.param("data", T.const(datarep_rope(c, d)))
    c.ensures("decodes-the-encoded-value", lambda r: c.eq(r, d))
    c.raises_only(set())


# ------------------------------------------------------------------------------------------------ PDU header
def header_fresh(c, prefix="h", packet_type=None, **over):
    f = {
        "version": c.fresh(U8, prefix + ".version"),
        "version_minor": c.fresh(U8, prefix + ".version_minor"),
        "packet_type": packet_type if packet_type is not None else fresh_enum(c, "PacketType", prefix + ".packet_type"),
        "packet_flags": enum_val(c, "PacketFlags", c.fresh(U8, prefix + ".packet_flags")),
        "data_rep": datarep_fresh(c, prefix + ".data_rep"),
        "frag_len": c.fresh(U16, prefix + ".frag_len"),
        "auth_len": c.fresh(U16, prefix + ".auth_len"),
        "call_id": c.fresh(U32, prefix + ".call_id"),
    }
    f.update(over)
    return SObj(cls(c, "PDUHeader"), f)


def header_rope(c, h):
    f = h.fields
    ai = c.I.as_int
    return c.rope(c.le(f["version"], 1), c.le(f["version_minor"], 1), c.le(ai(f["packet_type"]), 1), c.le(ai(f["packet_flags"]), 1),
                  datarep_rope(c, f["data_rep"]), c.le(f["frag_len"], 2), c.le(f["auth_len"], 2), c.le(f["call_id"], 4))


@REG.contract("dpapi_ng._rpc._pdu.PDUHeader.pack", props=["C12", "C13"], inline=True)
def header_pack(c):
    h = c.param("self", T.const(header_fresh(c, "self")))
    c.returns(header_rope(c, h))
    c.raises_only(set())


@REG.contract("dpapi_ng._rpc._pdu.PDUHeader.unpack", props=["C12"], inline=True)
def header_unpack(c):
    class_param(c, "PDUHeader")
    h = header_fresh(c, "h")
    rest = c.fresh(T.Bytes, "rest")  # the decoder is handed the whole PDU
    c.param("data", T.const(c.rope(header_rope(c, h), rest)))
    c.ensures("decodes-the-encoded-value", lambda r: c.eq(r, h))
    c.raises_only(set())


# ------------------------------------------------------------------------------------------------ security trailer
def sectrailer_fresh(c, prefix="st", **over):
    f = {
        "type": fresh_enum(c, "SecurityProvider", prefix + ".type"),
        "level": fresh_enum(c, "AuthenticationLevel", prefix + ".level"),
        "pad_length": c.fresh(U8, prefix + ".pad_length"),
        "context_id": c.fresh(U32, prefix + ".context_id"),
        "auth_value": c.fresh(T.Bytes, prefix + ".auth_value"),
    }
    f.update(over)
    return SObj(cls(c, "SecTrailer"), f)


def sectrailer_rope(c, s):
    f = s.fields
    ai = c.I.as_int
    # C706 13.2.6.1 auth verifier: auth_type, auth_level, auth_pad_length, auth_reserved, auth_context_id, auth_value
    return c.rope(c.le(ai(f["type"]), 1), c.le(ai(f["level"]), 1), c.le(f["pad_length"], 1), b"\x00", c.le(f["context_id"], 4), f["auth_value"])


@REG.contract("dpapi_ng._rpc._pdu.SecTrailer.pack", props=["C12", "C13"], inline=True)
def sectrailer_pack(c):
    s = c.param("self", T.const(sectrailer_fresh(c, "self")))
    c.returns(sectrailer_rope(c, s))
    c.raises_only(set())


@REG.contract("dpapi_ng._rpc._pdu.SecTrailer.unpack", props=["C12"], inline=True)
def sectrailer_unpack(c):
    class_param(c, "SecTrailer")
    s = sectrailer_fresh(c, "s")
    c.param("data", T.const(sectrailer_rope(c, s)))
    c.ensures("decodes-the-encoded-value", lambda r: c.eq(r, s))
    c.raises_only(set())


def opt_trailer(c, prefix="st"):
    """None or a security trailer (case split)."""
    if c.ctx.branch(z3.Bool(prefix + "_absent")):
        return None
    return sectrailer_fresh(c, prefix)


def trailer_bytes(c, st):
    return c.rope() if st is None else sectrailer_rope(c, st)


def wf_pdu(c, h, st, total_len):
    """frag_len is the PDU size, auth_len is the token size (0 without a trailer) -- what a well-formed PDU declares"""
    f = h.fields
    conj = [Z(f["frag_len"]) == Z(total_len)]
    if st is None:
        conj.append(Z(f["auth_len"]) == 0)
    else:
        conj.append(Z(f["auth_len"]) == Z(c.len(st.fields["auth_value"])))
        conj.append(Z(f["auth_len"]) > 0)
    return z3.And(*conj)


def pdu_fields_eq(c, r, want: dict):
    return [c.eq(r.fields[k], v) for k, v in want.items()]


# ------------------------------------------------------------------------------------------------ generic PDU pack/unpack checking
def pdu_contracts(cls_name, module, ptype_name, body_fresh, body_rope, props=("C12",), nak=False, wf=None, variant=None, pack_owner=None):
    """Registers contracts for <cls>.pack, <cls>._unpack and PDU.unpack dispatch on this type."""

    def pack(c):
        ptype = enum_val(c, "PacketType", cls(c, "PacketType").enum and dict((n, int(d["v"])) for n, d in cls(c, "PacketType").enum["members"])[ptype_name], ptype_name)
        h = header_fresh(c, "self.header", packet_type=ptype)
        st = None if nak else opt_trailer(c, "self.sec_trailer")
        body = body_fresh(c)
        obj = SObj(cls(c, cls_name), {"header": h, "sec_trailer": st, **body})
        c.param("self", T.const(obj))
        c.returns(c.rope(header_rope(c, h), body_rope(c, body), trailer_bytes(c, st)))
        c.raises_only(set())

    def unpack_via_dispatch(c):
        class_param(c, "PDU")
        ptype = enum_val(c, "PacketType", dict((n, int(d["v"])) for n, d in cls(c, "PacketType").enum["members"])[ptype_name], ptype_name)
        h = header_fresh(c, "h", packet_type=ptype)
        st = None if nak else opt_trailer(c, "st")
        body = body_fresh(c)
        data = c.rope(header_rope(c, h), body_rope(c, body), trailer_bytes(c, st))
        c.assume(wf_pdu(c, h, st, c.len(data)))
        c.assume(Z(c.len(data)) < 2**16)
        if wf is not None:
            c.assume(wf(c, h, body))
        c.param("data", T.const(data))
        want = {"header": h, "sec_trailer": st, **body}

        def ok(r):
            return [isinstance(r, SObj) and r.cls.name == cls_name] + (pdu_fields_eq(c, r, want) if isinstance(r, SObj) else [])

        c.ensures("decodes-the-encoded-message", ok)
        c.raises_only(set())

    if variant is None and pack_owner is None:
        REG.contract(f"{module}.{cls_name}.pack", props=list(props), inline=True)(pack)
    else:
        REG.variant(f"{module}.{pack_owner or cls_name}.pack", variant or cls_name, props=list(props))(pack)
    REG.variant("dpapi_ng._rpc._pdu.PDU.unpack", variant or cls_name, props=list(props), note=f"round trip of {cls_name} through PDU.unpack")(unpack_via_dispatch)


# ------------------------------------------------------------------------------------------------ Request / Response / Fault
def request_body_fresh(c):
    return {"alloc_hint": c.fresh(U32, "alloc_hint"), "context_id": c.fresh(U16, "context_id"), "opnum": c.fresh(U16, "opnum"),
            "obj": None, "stub_data": c.fresh(T.Bytes, "stub_data")}


def request_body_rope(c, b):
    return c.rope(c.le(b["alloc_hint"], 4), c.le(b["context_id"], 2), c.le(b["opnum"], 2), b["stub_data"])


def response_body_fresh(c):
    return {"alloc_hint": c.fresh(U32, "alloc_hint"), "context_id": c.fresh(U16, "context_id"), "cancel_count": c.fresh(U8, "cancel_count"),
            "stub_data": c.fresh(T.Bytes, "stub_data")}


def response_body_rope(c, b):
    return c.rope(c.le(b["alloc_hint"], 4), c.le(b["context_id"], 2), c.le(b["cancel_count"], 1), b"\x00", b["stub_data"])


def fault_body_fresh(c):
    return {"alloc_hint": c.fresh(U32, "alloc_hint"), "context_id": c.fresh(U16, "context_id"), "cancel_count": c.fresh(U8, "cancel_count"),
            "status": c.fresh(U32, "status"), "flags": enum_val(c, "FaultFlags", c.fresh(U8, "flags")), "stub_data": c.fresh(T.Bytes, "stub_data")}


def fault_body_rope(c, b):
    return c.rope(c.le(b["alloc_hint"], 4), c.le(b["context_id"], 2), c.le(b["cancel_count"], 1), c.le(c.I.as_int(b["flags"]), 1),
                  c.le(b["status"], 4), b"\x00\x00\x00\x00", b["stub_data"])


def request_wf(c, h, b):
    # PFC_OBJECT_UUID (0x80) is set iff an object UUID follows the fixed fields
    flags = Z(c.I.as_int(h.fields["packet_flags"]))
    return (c.div(flags, 128) % 2 == 1) if b["obj"] is not None else (c.div(flags, 128) % 2 == 0)


def request_body_fresh_obj(c):
    b = request_body_fresh(c)
    b["obj"] = c.fresh(T.UUID, "obj")
    return b


def request_body_rope_any(c, b):
    if b["obj"] is None:
        return request_body_rope(c, b)
    return c.rope(c.le(b["alloc_hint"], 4), c.le(b["context_id"], 2), c.le(b["opnum"], 2), b["obj"], b["stub_data"])


pdu_contracts("Request", "dpapi_ng._rpc._request", "REQUEST", request_body_fresh, request_body_rope, props=("C12", "C13"), wf=request_wf)
pdu_contracts("Response", "dpapi_ng._rpc._request", "RESPONSE", response_body_fresh, response_body_rope)
pdu_contracts("Fault", "dpapi_ng._rpc._pdu", "FAULT", fault_body_fresh, fault_body_rope)
pdu_contracts("Request", "dpapi_ng._rpc._request", "REQUEST", request_body_fresh_obj, request_body_rope_any, props=("C12",), wf=request_wf, variant="Request+obj")


# ------------------------------------------------------------------------------------------------ bind family
def syntax_fresh(c, prefix):
    return SObj(cls(c, "SyntaxId"), {"uuid": c.fresh(T.UUID, prefix + ".uuid"), "version": c.fresh(U16, prefix + ".version"), "version_minor": c.fresh(U16, prefix + ".version_minor")})


def syntax_rope(c, s):
    f = s.fields
    return c.rope(f["uuid"], c.le(f["version"], 2), c.le(f["version_minor"], 2))


@REG.contract("dpapi_ng._rpc._bind.SyntaxId.pack", props=["C12"], inline=True)
def syntax_pack(c):
    s = c.param("self", T.const(syntax_fresh(c, "self")))
    c.returns(syntax_rope(c, s))
    c.raises_only(set())


@REG.contract("dpapi_ng._rpc._bind.SyntaxId.unpack", props=["C12"], inline=True)
def syntax_unpack(c):
    class_param(c, "SyntaxId")
    s = syntax_fresh(c, "s")
    c.param("data", T.const(c.rope(syntax_rope(c, s), c.fresh(T.Bytes, "rest"))))
    c.ensures("decodes-the-encoded-value", lambda r: c.eq(r, s))
    c.raises_only(set())


def context_fresh(c, prefix, n_syntaxes):
    return SObj(cls(c, "ContextElement"), {"context_id": c.fresh(U16, prefix + ".context_id"), "abstract_syntax": syntax_fresh(c, prefix + ".abstract"),
                                             "transfer_syntaxes": [syntax_fresh(c, f"{prefix}.transfer{i}") for i in range(n_syntaxes)]})


def context_rope(c, e):
    f = e.fields
    n = len(f["transfer_syntaxes"])
    # C706 12.6.3.1 p_cont_elem_t: p_cont_id u16, n_transfer_syn u8, reserved u8, abstract syntax, transfer syntaxes
    return c.rope(c.le(f["context_id"], 2), bytes([n, 0]), syntax_rope(c, f["abstract_syntax"]), *[syntax_rope(c, s) for s in f["transfer_syntaxes"]])


def bind_body_fresh(c):
    n = c.ctx.choose(MAX_CONTEXTS + 1, "n_contexts")
    ctxs = []
    for i in range(n):
        m = c.ctx.choose(MAX_SYNTAXES + 1, f"n_syntaxes{i}")
        ctxs.append(context_fresh(c, f"ctx{i}", m))
    return {"max_xmit_frag": c.fresh(U16, "max_xmit_frag"), "max_recv_frag": c.fresh(U16, "max_recv_frag"), "assoc_group": c.fresh(U32, "assoc_group"), "contexts": ctxs}


def bind_body_rope(c, b):
    n = len(b["contexts"])
    # p_cont_list_t: n_context_elem u8, reserved u8, reserved2 u16, elements
    return c.rope(c.le(b["max_xmit_frag"], 2), c.le(b["max_recv_frag"], 2), c.le(b["assoc_group"], 4), bytes([n, 0, 0, 0]), *[context_rope(c, e) for e in b["contexts"]])


def result_fresh(c, prefix):
    return SObj(cls(c, "ContextResult"), {"result": fresh_enum(c, "ContextResultCode", prefix + ".result"), "reason": c.fresh(U16, prefix + ".reason"),
                                           "syntax": c.fresh(T.UUID, prefix + ".syntax"), "syntax_version": c.fresh(U32, prefix + ".syntax_version")})


def result_rope(c, r):
    f = r.fields
    return c.rope(c.le(c.I.as_int(f["result"]), 2), c.le(f["reason"], 2), f["syntax"], c.le(f["syntax_version"], 4))


def bindack_body_fresh(c):
    n = c.ctx.choose(MAX_RESULTS + 1, "n_results")
    return {"max_xmit_frag": c.fresh(U16, "max_xmit_frag"), "max_recv_frag": c.fresh(U16, "max_recv_frag"), "assoc_group": c.fresh(U32, "assoc_group"),
            "sec_addr": c.fresh(T.Str, "sec_addr"), "results": [result_fresh(c, f"res{i}") for i in range(n)]}


def bindack_body_rope(c, b):
    from pyvc.interp import STRLEN

    s = b["sec_addr"]
    # port_any_t: u16 length (including the terminating NUL), the characters; empty secondary address = length 0
    if c.ctx.branch(STRLEN(s.term) == 0):
        addr = c.rope()
    else:
        addr = c.rope(c.I.encode(s, "utf-8"), b"\x00")
    n_addr = c.len(addr)
    c.assume(Z(n_addr) < 2**16)
    pad = c.mod(-(2 + Z(n_addr)), 4)  # the result list is 4-byte aligned
    n = len(b["results"])
    return c.rope(c.le(b["max_xmit_frag"], 2), c.le(b["max_recv_frag"], 2), c.le(b["assoc_group"], 4), c.le(n_addr, 2), addr, c.zeros(pad),
                  bytes([n, 0, 0, 0]), *[result_rope(c, r) for r in b["results"]])


def bindnak_body_fresh(c):
    n = c.ctx.choose(MAX_VERSIONS + 1, "n_versions")
    return {"reject_reason": c.fresh(U16, "reject_reason"), "versions": [(c.fresh(U8, f"major{i}"), c.fresh(U8, f"minor{i}")) for i in range(n)]}


def bindnak_body_rope(c, b):
    n = len(b["versions"])
    vs = c.rope(bytes([n]), *[c.rope(c.le(a, 1), c.le(m, 1)) for a, m in b["versions"]])
    pad = (-(2 + 1 + 2 * n)) % 4
    return c.rope(c.le(b["reject_reason"], 2), vs, b"\x00" * pad)


pdu_contracts("Bind", "dpapi_ng._rpc._bind", "BIND", bind_body_fresh, bind_body_rope)
pdu_contracts("AlterContext", "dpapi_ng._rpc._bind", "ALTER_CONTEXT", bind_body_fresh, bind_body_rope, pack_owner="Bind")
pdu_contracts("BindAck", "dpapi_ng._rpc._bind", "BIND_ACK", bindack_body_fresh, bindack_body_rope)
pdu_contracts("AlterContextResponse", "dpapi_ng._rpc._bind", "ALTER_CONTEXT_RESP", bindack_body_fresh, bindack_body_rope, pack_owner="BindAck")
pdu_contracts("BindNak", "dpapi_ng._rpc._bind", "BIND_NAK", bindnak_body_fresh, bindnak_body_rope, nak=True)


# ================================================================================================ verification trailer (MS-RPCE 2.2.2.13)
VT_SIGNATURE = b"\x8a\xe3\x13\x71\x02\xf4\x36\x71"
MAX_COMMANDS = 3


def cmd_flags_fresh(c, prefix, end=None):
    """command flags: END (0x4000) and MUST_PROCESS (0x8000) bits"""
    must = c.fresh(T.int(0, 1), prefix + ".must")
    e = c.fresh(T.int(0, 1), prefix + ".end") if end is None else (1 if end else 0)
    return enum_val(c, "CommandFlags", Z(e) * 0x4000 + must * 0x8000), e


def command_rope(c, ctype, flags, value):
    # command u16 = type (low 14 bits) | flags ; length u16 ; value
    return c.rope(c.le(Z(ctype) + Z(c.I.as_int(flags)), 2), c.le(c.len(value), 2), value)


def command_fresh(c, prefix, end=None):
    """One of: bitmask, pcontext, header2, unknown command type - returns (object, rope)"""
    kind = c.ctx.choose(4, prefix + ".kind")
    flags, _ = cmd_flags_fresh(c, prefix, end)
    if kind == 0:
        bits = c.fresh(U32, prefix + ".bits")
        value = c.rope(c.le(bits, 4))
        obj = SObj(cls(c, "CommandBitmask"), {"command": enum_val(c, "CommandType", 1, "SEC_VT_COMMAND_BITMASK_1"), "flags": flags, "value": SBytes(R.Rope()), "bits": bits,
                                               "CLIENT_SUPPORT_HEADER_SIGNING": 1})
        return obj, command_rope(c, 1, flags, value), value
    if kind == 1:
        i, t = syntax_fresh(c, prefix + ".interface"), syntax_fresh(c, prefix + ".transfer")
        value = c.rope(syntax_rope(c, i), syntax_rope(c, t))
        obj = SObj(cls(c, "CommandPContext"), {"command": enum_val(c, "CommandType", 2, "SEC_VT_COMMAND_PCONTEXT"), "flags": flags, "value": SBytes(R.Rope()), "interface_id": i, "transfer_syntax": t})
        return obj, command_rope(c, 2, flags, value), value
    if kind == 2:
        pt = fresh_enum(c, "PacketType", prefix + ".ptype")
        dr = datarep_fresh(c, prefix + ".drep")
        call_id, ctx_id, opnum = c.fresh(U32, prefix + ".call_id"), c.fresh(U16, prefix + ".context_id"), c.fresh(U16, prefix + ".opnum")
        value = c.rope(c.le(c.I.as_int(pt), 1), b"\x00\x00\x00", datarep_rope(c, dr), c.le(call_id, 4), c.le(ctx_id, 2), c.le(opnum, 2))
        obj = SObj(cls(c, "CommandHeader2"), {"command": enum_val(c, "CommandType", 3, "SEC_VT_COMMAND_HEADER2"), "flags": flags, "value": SBytes(R.Rope()),
                                               "packet_type": pt, "data_rep": dr, "call_id": call_id, "context_id": ctx_id, "opnum": opnum})
        return obj, command_rope(c, 3, flags, value), value
    ctype = c.fresh(T.int(4, 0x3FFF), prefix + ".type")
    value = c.fresh(T.bytes(max_len=0xFFFF), prefix + ".value")
    obj = SObj(cls(c, "Command"), {"command": enum_val(c, "CommandType", ctype), "flags": flags, "value": value})
    return obj, command_rope(c, ctype, flags, value), value


def semantic_eq(c, got, want, raw_value):
    """Equality of a decoded command with the encoded one: same class and declared fields; a known command
    mirrors its raw value bytes in `.value` after decoding (by design of the library)."""
    if not isinstance(got, SObj) or got.cls.ref != want.cls.ref:
        return False
    conj = []
    for k, v in want.fields.items():
        if k == "value" and want.cls.name != "Command":
            conj.append(c.eq(got.fields[k], raw_value))
        else:
            conj.append(c.eq(got.fields[k], v))
    return c.And(*conj)


@REG.contract("dpapi_ng._rpc._verification.Command.unpack", props=["C12"], inline=True)
def command_unpack(c):
    class_param(c, "Command")
    obj, rope, raw = command_fresh(c, "cmd")
    c.param("data", T.const(c.rope(rope, c.fresh(T.Bytes, "rest"))))
    c.ensures("decodes-the-encoded-command", lambda r: semantic_eq(c, r, obj, raw))
    c.raises_only(set())


def _cmd_pack(cls_name, kind_index):
    def spec(c):
        # force the case of this class
        obj = rope = None
        for _ in range(1):
            obj, rope, raw = command_fresh(c, "self")
        if obj.cls.name != cls_name:
            from pyvc.values import PathEnd

            raise PathEnd()
        c.param("self", T.const(obj))
        c.returns(rope)
        c.raises_only(set())

    return spec


for _i, _n in enumerate(["CommandBitmask", "CommandPContext", "CommandHeader2", "Command"]):
    REG.contract(f"dpapi_ng._rpc._verification.{_n}.pack", props=["C12"], inline=True)(_cmd_pack(_n, _i))


def vt_fresh(c):
    n = 1 + c.ctx.choose(MAX_COMMANDS, "n_commands")
    cmds, ropes, raws = [], [], []
    for i in range(n):
        o, r, raw = command_fresh(c, f"cmd{i}", end=(i == n - 1))  # exactly the last command carries SEC_VT_COMMAND_END
        cmds.append(o)
        ropes.append(r)
        raws.append(raw)
    return cmds, ropes, raws


@REG.contract("dpapi_ng._rpc._verification.VerificationTrailer.pack", props=["C12"])
def vt_pack(c):
    if not c.verifying:
        s_ = c.param("self")
        if "packed" in s_.ghost:  # an abstract trailer (C13): its bytes are an opaque ghost value
            c.returns(s_.ghost["packed"])
            c.raises_only(set())
            return
        c.inline_instead()
    cmds, ropes, _ = vt_fresh(c)
    c.param("self", T.const(SObj(cls(c, "VerificationTrailer"), {"signature": SBytes(R.Rope.lit(VT_SIGNATURE)), "commands": cmds})))
    c.returns(c.rope(VT_SIGNATURE, *ropes))
    c.raises_only(set())


@REG.contract("dpapi_ng._rpc._verification.VerificationTrailer.unpack", props=["C12"], inline=True)
def vt_unpack(c):
    class_param(c, "VerificationTrailer")
    cmds, ropes, raws = vt_fresh(c)
    c.param("data", T.const(c.rope(VT_SIGNATURE, *ropes)))

    def ok(r):
        got = r.fields["commands"]
        if not isinstance(got, list) or len(got) != len(cmds):
            return False
        return c.And(*[semantic_eq(c, g, w, raw) for g, w, raw in zip(got, cmds, raws)])

    c.ensures("decodes-the-encoded-commands", ok)
    c.raises_only(set())


@REG.variant("dpapi_ng._rpc._verification.VerificationTrailer.unpack", "arbitrary-bytes", props=["C12"])
def vt_unpack_any(c):
    """Termination and linear work on arbitrary bytes: every iteration consumes at least the 4-byte command header."""
    class_param(c, "VerificationTrailer")
    data = c.param("data", T.bytes(max_len=0xFFFF))
    n = c.len(data)
    c.raises("Exception", when=None)  # C12 constrains the work, not the error type, of this decoder
    c.raises_only({"Exception"})
    c.ghost_bound("ticks", 2 * Z(n) + 16, on_raise=2 * Z(n) + 16)  # linear in the input: at most 6 steps per 4 bytes consumed; also when decoding fails

    def havoc_list(I_, cur, s):
        from pyvc.values import SList

        return SList(fresh_int("n_commands"), lambda j: None)

    c.loop(
        0,
        invariant=lambda s: [Z(s.ticks) * 4 <= 6 * (Z(n) - Z(c.len(s.view))) + 24, Z(c.len(s.view)) <= Z(n)],
        variant=lambda s: Z(c.len(s.view)),
        havoc={"commands": havoc_list},
    )


# ================================================================================================ PDU.unpack on arbitrary bytes (C12)
@REG.variant("dpapi_ng._rpc._pdu.PDU.unpack", "arbitrary-bytes", props=["C12"])
def pdu_unpack_any(c):
    """Any byte string of at most one fragment (64 KiB), every registered PDU type (bind / alter_context included, although
    only a server receives them): work proportional to the length, on normal and exceptional exits. Potential argument as
    for the endpoint-mapper reply: each completed list element costs a constant number of steps and consumes bytes."""
    class_param(c, "PDU")
    data = c.param("data", T.bytes(max_len=0xFFFF))
    n = Z(c.len(data))
    c.raises("Exception", when=None)
    c.raises_only({"Exception"})
    c.ghost_bound("ticks", 2 * n + 48, on_raise=2 * n + 48)
    c.ghost_bound("copied", 2 * n + 64)
    L = lambda v: Z(c.len(v))  # noqa: E731

    annotate_pdu_loops(c, cost=True)


def _opaque_list(I_, cur, s):
    from pyvc.values import SList

    return SList(fresh_int("n_items"), lambda j: UNSPEC)


def annotate_pdu_loops(c, cost=False):
    """Loop annotations for the list decoders reached from PDU.unpack on arbitrary bytes. With cost=True the
    invariant is the potential argument (2*steps + remaining bytes never grows); otherwise it only states that the
    view stays within the data (enough for partial-correctness contracts of callers)."""
    L = lambda v: Z(c.len(v))  # noqa: E731

    def pot(s):
        e = s.at_entry
        base = [L(s.view) <= L(e.view)]
        if cost:
            base += [2 * Z(s.ticks) + L(s.view) <= 2 * Z(e.ticks) + L(e.view), Z(s.copied) + L(s.view) <= Z(e.copied) + L(e.view)]
        return base

    c.loop(0, target="dpapi_ng._rpc._bind.BindAck._unpack", invariant=pot, havoc={"results": _opaque_list})
    c.loop(0, target="dpapi_ng._rpc._bind.BindNak._unpack", invariant=pot, havoc={"versions": _opaque_list})
    if not cost:
        c.loop(0, target="dpapi_ng._rpc._bind.Bind._unpack", invariant=lambda s: [L(s.view) <= L(s.at_entry.view)], havoc={"contexts": _opaque_list})
    else:
        # a context element with nt transfer syntaxes costs at most 2*nt + 6 steps and (having been decoded) occupies at least
        # 20 + 20*nt bytes, all of which the loop then skips: three steps per byte consumed is never exceeded
        c.loop(0, target="dpapi_ng._rpc._bind.Bind._unpack", invariant=lambda s: [L(s.view) <= L(s.at_entry.view), 3 * Z(s.ticks) + L(s.view) <= 3 * Z(s.at_entry.ticks) + L(s.at_entry.view),
                                                                                   Z(s.copied) + L(s.view) <= Z(s.at_entry.copied) + L(s.at_entry.view)],
               havoc={"contexts": _opaque_list})
    annotate_context_element_loop(c)


def annotate_context_element_loop(c):
    from pyvc.values import SList

    L = lambda v: Z(c.len(v))  # noqa: E731

    def inv(s):
        L0 = L(s.at_entry.view) + 24  # the loop starts on data[24:]; clamped slicing: the view is what is left, never negative
        left = L0 - 24 - 20 * Z(s._i)
        return [L(s.view) == z3.If(left > 0, left, 0), Z(s.ticks) - Z(s.at_entry.ticks) <= 2 * Z(s._i), Z(s.copied) - Z(s.at_entry.copied) <= 16 * Z(s._i),
                z3.Or(Z(s._i) == 0, L(s.data) >= 20 + 20 * Z(s._i)),
                L(s.at_entry.view) == z3.If(L(s.data) - 24 > 0, L(s.data) - 24, 0)]

    c.loop(0, target="dpapi_ng._rpc._bind.ContextElement.unpack", invariant=inv, havoc={"transfer_syntaxes": lambda I_, cur, s: SList(s._i, lambda j: UNSPEC)})


@REG.contract("dpapi_ng._rpc._bind.ContextElement.unpack", props=["C12"])
def context_element_unpack(c):
    """On arbitrary bytes: as many transfer syntaxes as the count field announces or an error; a decoded element with nt syntaxes
    occupies at least 20 + 20*nt bytes and costs at most 2*nt + 4 steps (an error at most len + 6)."""
    from pyvc.values import SList
    from .c_asn1 import opaque

    class_param(c, "ContextElement")
    if not c.verifying:
        data = c.param("data")
        if not opaque(c.I.rope_of(data)):
            c.inline_instead()  # structured bytes (the round-trip proofs): the body is executed
    else:
        data = c.param("data", T.bytes(kind="memoryview", max_len=0xFFFF))
        annotate_context_element_loop(c)
    n = Z(c.len(data))
    nt = R.to_int(c.ctx, R.py_slice(c.ctx, c.I.rope_of(data), 2, 4), "little")
    c.raises("ValueError", when=None)  # a syntax identifier cut short (uuid.UUID needs 16 bytes)
    c.raises_only({"ValueError"})
    if c.verifying:
        t0 = Z(c.ctx.ghost.get("ticks", 0))
        c0 = Z(c.ctx.ghost.get("copied", 0))
        c.ensures("announced-number-of-syntaxes-present-in-the-data", lambda r: [isinstance(r.fields["transfer_syntaxes"], (SList, list)),
                                                                             Z(r.fields["transfer_syntaxes"].length if isinstance(r.fields["transfer_syntaxes"], SList) else len(r.fields["transfer_syntaxes"])) == Z(nt), n >= 20 + 20 * Z(nt),
                                                                             Z(c.ctx.ghost["ticks"]) - t0 <= 2 * Z(nt) + 4, Z(c.ctx.ghost.get("copied", 0)) - c0 <= 16 * Z(nt) + 16])
        c.ghost_bound("ticks", n + 6, on_raise=n + 6)
        c.ghost_bound("copied", n + 16, on_raise=n + 16)
    else:
        c.ensures("announced-number-of-syntaxes-present-in-the-data", lambda r: n >= 20 + 20 * Z(nt))
        c.ghost_bound("ticks", 2 * Z(nt) + 4, on_raise=n + 6)
        c.ghost_bound("copied", 16 * Z(nt) + 16, on_raise=n + 16)
        c.returns(SObj(cls(c, "ContextElement"), {"context_id": R.to_int(c.ctx, R.py_slice(c.ctx, c.I.rope_of(data), 0, 2), "little"), "abstract_syntax": UNSPEC,
                                                   "transfer_syntaxes": SList(nt, lambda j: UNSPEC)}))


# ================================================================================================ PDU.unpack summary (used by callers)
PTYPE_CLASS = {0: "Request", 2: "Response", 3: "Fault", 11: "Bind", 12: "BindAck", 13: "BindNak", 14: "AlterContext", 15: "AlterContextResponse"}


def _pdu_view(c, data):
    """frag_len, auth_len, packet type and the body/trailer split that PDU.unpack applies to arbitrary bytes"""
    rope = c.I.rope_of(data)
    g = lambda a, b: R.to_int(c.ctx, R.py_slice(c.ctx, rope, a, b), "little")  # noqa: E731
    return rope, g(2, 3), g(8, 10), g(10, 12)


@REG.contract("dpapi_ng._rpc._pdu.PDU.unpack", props=["C12"])
def pdu_unpack_summary(c):
    """What a caller may rely on for ARBITRARY bytes: the class of the result is the one registered for the packet
    type octet; a Response carries stub_data = data[24 : end of body] where the body ends at frag_len, or at
    frag_len - auth_len - 8 when auth_len != 0, and has a security trailer exactly when auth_len != 0."""
    class_param(c, "PDU")
    data = c.param("data", T.bytes(kind="bytearray", max_len=0xFFFF))
    rope, ptype, frag_len, auth_len = _pdu_view(c, data)
    c.raises("ValueError", when=None)
    c.raises("KeyError", when=None)
    c.raises("IndexError", when=None)
    c.raises_only({"ValueError", "KeyError", "IndexError"})
    n = Z(c.len(data))

    def body_end():
        fl = z3.If(Z(frag_len) < n, Z(frag_len), n)
        fl16 = z3.If(fl < 16, 16, fl)  # view[16:frag_len]
        inner = fl16 - 16
        cut = z3.If(Z(auth_len) != 0, z3.If(inner - (Z(auth_len) + 8) < 0, 0, inner - (Z(auth_len) + 8)), inner)
        return 16 + cut

    def stub_of(end):
        return SBytes(R.py_slice(c.ctx, rope, 24, end))

    if c.verifying:
        annotate_pdu_loops(c)

        def ok(r):
            if not isinstance(r, SObj):
                return False
            conj = [c.Or(*[c.And(r.cls.name == name, Z(ptype) == k) for k, name in PTYPE_CLASS.items()])]
            if r.cls.name == "Response":
                conj.append(c.eq(r.fields["stub_data"], stub_of(body_end())))
                conj.append((r.fields["sec_trailer"] is None) == (c.ctx.entails(Z(auth_len) == 0)))
            return conj

        c.ensures("class-by-packet-type-and-response-stub-region", ok)
    else:
        k = c.ctx.choose(len(PTYPE_CLASS), "pdu_class")
        pt, name = list(PTYPE_CLASS.items())[k]
        # a fact about the RESULT (which class comes back for which packet type): assumed on the returning path only, so that for a
        # packet type outside the registry the summary's outcome is one of the exceptions above, not an infeasible path
        c.ensures("class-by-packet-type", lambda r: Z(ptype) == pt)
        hdr = SObj(cls(c, "PDUHeader"), {"version": fresh_int("v"), "version_minor": fresh_int("vm"), "packet_type": enum_val(c, "PacketType", pt),
                                          "packet_flags": enum_val(c, "PacketFlags", fresh_int("flags")), "data_rep": UNSPEC, "frag_len": frag_len, "auth_len": auth_len,
                                          "call_id": fresh_int("call_id")})
        if c.ctx.branch(Z(auth_len) != 0):
            st = SObj(cls(c, "SecTrailer"), {"type": enum_val(c, "SecurityProvider", fresh_int("st_type")), "level": enum_val(c, "AuthenticationLevel", fresh_int("st_level")),
                                              "pad_length": c.fresh(U8, "st_pad"), "context_id": c.fresh(U32, "st_ctx"), "auth_value": c.fresh(T.Bytes, "st_auth_value")})
        else:
            st = None
        fields = {"header": hdr, "sec_trailer": None if name == "BindNak" else st}
        if name == "Response":
            fields.update({"alloc_hint": c.fresh(U32, "alloc_hint"), "context_id": c.fresh(U16, "context_id"), "cancel_count": c.fresh(U8, "cancel_count"),
                           "stub_data": stub_of(body_end())})
        elif name == "Fault":
            fields.update({"alloc_hint": c.fresh(U32, "alloc_hint"), "context_id": c.fresh(U16, "context_id"), "cancel_count": c.fresh(U8, "cancel_count"),
                           "status": c.fresh(U32, "status"), "flags": enum_val(c, "FaultFlags", c.fresh(U8, "fflags")), "stub_data": c.fresh(T.Bytes, "fault_stub")})
        elif name == "BindNak":
            fields.update({"reject_reason": c.fresh(U16, "reject_reason"), "versions": _opaque_list(c.I, None, None)})
        elif name in ("BindAck", "AlterContextResponse"):
            from pyvc.values import SList

            nres = c.fresh(T.int(0, 255), "n_results")
            res_cls = cls(c, "ContextResult")
            tag = fresh_int("ack")

            def res(j, tag=tag):
                code = z3.Function("ACK_RESULT", z3.IntSort(), z3.IntSort(), z3.IntSort())(tag, Z(j))
                c.assume(z3.And(code >= 0, code <= 3))
                return SObj(res_cls, {"result": enum_val(c, "ContextResultCode", code), "reason": fresh_int("reason"), "syntax": UNSPEC, "syntax_version": fresh_int("sv")})

            fields.update({"max_xmit_frag": c.fresh(U16, "mx"), "max_recv_frag": c.fresh(U16, "mr"), "assoc_group": c.fresh(U32, "ag"), "sec_addr": c.fresh(T.Str, "sec_addr"),
                           "results": SList(nres, res)})
        elif name == "Request":
            fields.update({"alloc_hint": c.fresh(U32, "alloc_hint"), "context_id": c.fresh(U16, "context_id"), "opnum": c.fresh(U16, "opnum"), "obj": UNSPEC,
                           "stub_data": c.fresh(T.Bytes, "req_stub")})
        else:
            fields.update({"max_xmit_frag": c.fresh(U16, "mx"), "max_recv_frag": c.fresh(U16, "mr"), "assoc_group": c.fresh(U32, "ag"), "contexts": _opaque_list(c.I, None, None)})
        c.returns(SObj(cls(c, name), fields))


def reply_object(c, name):
    """An arbitrary decoded PDU of class `name` (for callers of _process_response / _send_pdu)."""
    from pyvc.values import SList

    hdr = SObj(cls(c, "PDUHeader"), {"version": fresh_int("v"), "version_minor": fresh_int("vm"), "packet_type": enum_val(c, "PacketType", fresh_int("pt")),
                                      "packet_flags": enum_val(c, "PacketFlags", c.fresh(U8, "reply_flags")), "data_rep": UNSPEC, "frag_len": c.fresh(U16, "fl"),
                                      "auth_len": c.fresh(U16, "al"), "call_id": fresh_int("call_id")})
    if c.ctx.branch(z3.Bool("reply_has_no_trailer!%d" % len(c.ctx.taken))):
        st = None
    else:
        st = SObj(cls(c, "SecTrailer"), {"type": enum_val(c, "SecurityProvider", fresh_int("st_type")), "level": enum_val(c, "AuthenticationLevel", fresh_int("st_level")),
                                          "pad_length": c.fresh(U8, "st_pad"), "context_id": c.fresh(U32, "st_ctx"), "auth_value": c.fresh(T.Bytes, "server_token")})
    f = {"header": hdr, "sec_trailer": st}
    if name == "Response":
        f.update({"alloc_hint": c.fresh(U32, "alloc_hint"), "context_id": c.fresh(U16, "context_id"), "cancel_count": c.fresh(U8, "cancel_count"), "stub_data": c.fresh(T.Bytes, "reply_stub")})
    else:
        nres = c.fresh(T.int(0, 255), "n_results")
        res_cls = cls(c, "ContextResult")
        tag = fresh_int("ack")

        def res(j, tag=tag):
            code = z3.Function("ACK_RESULT", z3.IntSort(), z3.IntSort(), z3.IntSort())(tag, Z(j))
            c.assume(z3.And(code >= 0, code <= 3))
            return SObj(res_cls, {"result": enum_val(c, "ContextResultCode", code), "reason": fresh_int("reason"), "syntax": UNSPEC, "syntax_version": fresh_int("sv")})

        f.update({"max_xmit_frag": c.fresh(U16, "mx"), "max_recv_frag": c.fresh(U16, "mr"), "assoc_group": c.fresh(U32, "ag"), "sec_addr": c.fresh(T.Str, "sec_addr"),
                  "results": SList(nres, res)})
        f["results"].tag = tag
    return SObj(cls(c, name), f)
