"""Contracts for the CMS layer (C06): DPAPINGBlob.pack / unpack against the RFC 5652 / Windows layout."""
import z3

from pyvc import rope as R
from pyvc.contracts import T
from pyvc.smt import Bytes, Str, Z, blen, fresh_bytes, str_lit
from pyvc.values import ClassRef, SBytes, SEnum, SObj, SStr

from . import REG
from .c_asn1 import cls_, derlen_atom, ident_bytes, tlv
from .c_codecs import class_param, kid_fresh, kid_rope, kid_wf

from .c_asn1 import OIDC  # noqa: E402  content octets of the OBJECT IDENTIFIER with this dotted text (C07)

OID_ENVELOPED_DATA = "1.2.840.113549.1.7.3"  # RFC 5652 6.1
OID_DATA = "1.2.840.113549.1.7.1"  # RFC 5652 4
OID_MS_SOFTWARE = "1.3.6.1.4.1.311.74.1"  # key attribute carrying the protection descriptor
OID_PD_SID = "1.3.6.1.4.1.311.74.1.1"


def enc_oid_concrete(oid: str) -> bytes:
    """X.690 8.19 for a literal OID (independent of the library's encoder)"""
    arcs = [int(x) for x in oid.split(".")]
    subs = [40 * arcs[0] + arcs[1]] + arcs[2:]
    out = bytearray()
    for s in subs:
        chunk = [s & 0x7F]
        s >>= 7
        while s:
            chunk.append(0x80 | (s & 0x7F))
            s >>= 7
        out += bytes(reversed(chunk))
    return bytes(out)


def OID(c, oid):
    if isinstance(oid, str):
        return tlv(c, c.rope(b"\x06"), c.rope(enc_oid_concrete(oid)))
    t = OIDC(oid.term)
    c.assume(z3.And(blen(t) >= 1, blen(t) <= 2**32))
    return tlv(c, c.rope(b"\x06"), SBytes(R.Rope([R.full_atom(t)])))


def SEQ(c, *content):
    return tlv(c, c.rope(b"\x30"), c.rope(*content))


def SET(c, *content):
    return tlv(c, c.rope(b"\x31"), c.rope(*content))


def CTX(c, n, constructed, *content):
    return tlv(c, c.rope(ident_bytes(2, constructed, n)), c.rope(*content))


def OCTETS(c, data):
    return tlv(c, c.rope(b"\x04"), data)


def UTF8(c, s):
    return tlv(c, c.rope(b"\x0c"), c.I.encode(s, "utf-8"))


def INT_SMALL(c, v: int):
    assert 0 <= v < 128
    return tlv(c, c.rope(b"\x02"), c.rope(bytes([v])))


def protection_descriptor_rope(c, sid):
    return SEQ(c, OID(c, OID_PD_SID), SEQ(c, SEQ(c, SEQ(c, UTF8(c, "SID"), UTF8(c, sid)))))


def alg_id(c, oid, params):
    return SEQ(c, OID(c, oid), *([] if params is None else [params]))


def cms_layout(c, f, in_envelope: bool):
    """RFC 5652: ContentInfo{ id-envelopedData, [0] EXPLICIT EnvelopedData{ version 2, RecipientInfos SET OF { [2] KEKRecipientInfo{
    version 4, KEKIdentifier{ keyIdentifier OCTET STRING, other OtherKeyAttribute{ keyAttrId, keyAttr } }, keyEncryptionAlgorithm,
    encryptedKey } }, EncryptedContentInfo{ id-data, contentEncryptionAlgorithm, [0] IMPLICIT encryptedContent OPTIONAL } } }
    followed, in the trailing layout, by the encrypted content."""
    kek_ri = CTX(
        c, 2, True,
        INT_SMALL(c, 4),
        SEQ(c, OCTETS(c, kid_rope(c, f["kid"])), SEQ(c, OID(c, OID_MS_SOFTWARE), protection_descriptor_rope(c, f["sid"]))),
        alg_id(c, f["enc_cek_algorithm"], f["enc_cek_parameters"]),
        OCTETS(c, f["enc_cek"]),
    )
    eci = SEQ(c, OID(c, OID_DATA), alg_id(c, f["enc_content_algorithm"], f["enc_content_parameters"]), *([CTX(c, 0, False, f["enc_content"])] if in_envelope else []))
    enveloped = SEQ(c, INT_SMALL(c, 2), SET(c, kek_ri), eci)
    content_info = SEQ(c, OID(c, OID_ENVELOPED_DATA), CTX(c, 0, True, enveloped))
    return c.rope(content_info) if in_envelope else c.rope(content_info, f["enc_content"])


def opt_params(c, name):
    """algorithm parameters: absent, or a non-empty raw DER value"""
    if c.ctx.branch(z3.Bool(name + "_absent")):
        return None
    p = c.fresh(T.Bytes, name)
    c.assume(Z(c.len(p)) >= 1)
    return p


def blob_fresh(c):
    f = {
        "kid": kid_fresh(c, "kid"),
        "sid": c.fresh(T.Str, "sid"),
        "enc_cek": c.fresh(T.Bytes, "enc_cek"),
        "enc_cek_algorithm": c.fresh(T.Str, "enc_cek_algorithm"),
        "enc_cek_parameters": opt_params(c, "enc_cek_parameters"),
        "enc_content": c.fresh(T.Bytes, "enc_content"),
        "enc_content_algorithm": c.fresh(T.Str, "enc_content_algorithm"),
        "enc_content_parameters": opt_params(c, "enc_content_parameters"),
    }
    c.assume(kid_wf(c, f["kid"]))
    return f


def blob_obj(c, f):
    kid = SObj(cls_(c, "KeyIdentifier"), {**f["kid"], "magic": SBytes(R.Rope.lit(b"KDSK"))})
    pd_type = SEnum(cls_(c, "ProtectionDescriptorType"), OID_PD_SID, "SID")
    pd = SObj(cls_(c, "SIDDescriptor"), {"type": pd_type, "value": f["sid"]})
    return SObj(cls_(c, "DPAPINGBlob"), {"key_identifier": kid, "protection_descriptor": pd, "enc_cek": f["enc_cek"], "enc_cek_algorithm": f["enc_cek_algorithm"],
                                          "enc_cek_parameters": f["enc_cek_parameters"], "enc_content": f["enc_content"], "enc_content_algorithm": f["enc_content_algorithm"],
                                          "enc_content_parameters": f["enc_content_parameters"]})


# ------------------------------------------------------------------------------------------------ blob
@REG.contract("dpapi_ng._blob.DPAPINGBlob.pack", props=["C06", "C01"])
def blob_pack(c):
    if not c.verifying:
        s_ = c.param("self")
        in_env = c.param("blob_in_envelope")
        sf = s_.fields
        pd = sf["protection_descriptor"]
        if not isinstance(in_env, bool) or pd.cls.name != "SIDDescriptor":
            c.inline_instead()
        kidf = {k: v for k, v in sf["key_identifier"].fields.items() if k != "magic"}
        f = {"kid": kidf, "sid": pd.fields["value"], "enc_cek": sf["enc_cek"], "enc_cek_algorithm": sf["enc_cek_algorithm"], "enc_cek_parameters": sf["enc_cek_parameters"],
             "enc_content": sf["enc_content"], "enc_content_algorithm": sf["enc_content_algorithm"], "enc_content_parameters": sf["enc_content_parameters"]}
        for k in ("enc_cek_algorithm", "enc_content_algorithm"):
            if isinstance(f[k], SEnum):
                f[k] = f[k].value
        for k in ("enc_cek_parameters", "enc_content_parameters"):
            if f[k] is not None:
                c.requires(Z(c.len(f[k])) >= 1, k + "-absent-or-non-empty")
        c.requires(kid_wf(c, kidf), "key-identifier-well-formed")
        if in_env:
            c.requires(Z(c.len(f["enc_content"])) >= 1, "in-envelope-content-non-empty")
        c.returns(cms_layout(c, f, in_env))
        c.raises_only(set())
        return
    f = blob_fresh(c)
    c.param("self", T.const(blob_obj(c, f)))
    in_env = bool(c.ctx.branch(z3.Bool("blob_in_envelope")))
    c.param("blob_in_envelope", T.const(in_env))
    # the [0] encryptedContent field is written iff the content is non-empty (in-envelope layout)
    if in_env:
        c.requires(Z(c.len(f["enc_content"])) >= 1, "in-envelope-content-non-empty")
    c.returns(cms_layout(c, f, in_env))
    c.raises_only(set())


@REG.contract("dpapi_ng._blob.DPAPINGBlob.unpack", props=["C06", "C01"])
def blob_unpack(c):
    class_param(c, "DPAPINGBlob")
    f = blob_fresh(c)
    in_env = bool(c.ctx.branch(z3.Bool("blob_in_envelope")))
    c.assume(Z(c.len(f["enc_content"])) >= 1)
    c.param("data", T.const(cms_layout(c, f, in_env)))
    c.returns(blob_obj(c, f))
    c.raises_only(set())
