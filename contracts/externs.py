"""Assumed contracts of external functions (DESIGN 2.6, 3.3). Every entry is part of the trusted base and is
listed in the evidence. An assumed contract still has preconditions, which become call-site obligations."""
import z3

from pyvc import rope as R
from pyvc.smt import Bytes, Ref, Z, blen, fresh_bytes, fresh_int, simp
from pyvc.values import Builtin, OutOfReach, SBytes, SRef

from . import REG

CRY = "cryptography.hazmat.primitives."
HASHES = CRY + "hashes."

HASH_NAMES = {"SHA1": 20, "SHA256": 32, "SHA384": 48, "SHA512": 64}
HASH_CONST = {n: z3.Const("HASH_" + n, Ref) for n in HASH_NAMES}
REG.axiom(z3.Distinct(*HASH_CONST.values()), "hash algorithms are distinct objects")
DIGEST_SIZE = z3.Function("DIGEST_SIZE", Ref, z3.IntSort())
for _n, _sz in HASH_NAMES.items():
    REG.axiom(DIGEST_SIZE(HASH_CONST[_n]) == _sz, f"digest size of {_n}")


def _mk_hash(name):
    def f(I, fn, args, kw):
        return SRef(HASH_CONST[name], "HashAlgorithm", {"name": name.lower(), "digest_size": HASH_NAMES[name]})

    return f


for _n in HASH_NAMES:
    REG.externs[HASHES + _n] = _mk_hash(_n)


@REG.extern_attribute("HashAlgorithm", "digest_size")
def _digest_size(I, ref):
    d = DIGEST_SIZE(ref.term)
    I.ctx.assume(z3.And(d >= 20, d <= 64))
    return d


# ---------------------------------------------------------------------------------------------- clock, RNG
@REG.extern("time.time_ns")
def time_ns(I, fn, args, kw):
    """A-CLOCK: a non-negative integer (nanoseconds since 1970)."""
    v = fresh_int("time_ns")
    I.ctx.assume(v >= 0)
    I.ctx.event("time_ns", value=v)
    return v


@REG.extern("os.urandom")
def urandom(I, fn, args, kw):
    """A-RNG: n fresh bytes; the draw is recorded in the ghost entropy trace."""
    n = I.as_int(args[0])
    if I.branch(Z(n) < 0):
        I.raise_("ValueError")
    t = fresh_bytes("urandom")
    I.ctx.assume(blen(t) == Z(n))
    v = SBytes(R.Rope([R.full_atom(t)]))
    I.ctx.event("urandom", n=n, term=t)
    return v


# ---------------------------------------------------------------------------------------------- SP800-108 KDF
KB = CRY + "kdf.kbkdf."


@REG.extern(KB + "KBKDFHMAC")
def kbkdfhmac(I, fn, args, kw):
    """A-KDF: KBKDFHMAC(counter mode, 32-bit counter before the fixed data, 32-bit L, no explicit fixed data)
    .derive(key) is the function KDF(alg, key, label, context, length)."""
    site = I.site("KBKDFHMAC")
    need = {"algorithm", "mode", "length", "label", "context", "rlen", "llen", "location", "fixed"}
    if args or set(kw) != need:
        I.ctx.prove(f"{site}.pre.arguments", False, detail=f"expected keyword arguments {sorted(need)}")
    I.ctx.prove(f"{site}.pre.mode", I.eq(kw.get("mode"), Builtin(KB + "Mode.CounterMode")))
    I.ctx.prove(f"{site}.pre.rlen", I.eq(kw.get("rlen"), 4))
    I.ctx.prove(f"{site}.pre.llen", I.eq(kw.get("llen"), 4))
    I.ctx.prove(f"{site}.pre.location", I.eq(kw.get("location"), Builtin(KB + "CounterLocation.BeforeFixed")))
    I.ctx.prove(f"{site}.pre.fixed", kw.get("fixed") is None)
    return SRef(z3.Const("kbkdf", Ref), "KBKDFHMAC", dict(kw))


@REG.extern_method("KBKDFHMAC.derive")
def kbkdf_derive(I, ref, args, kw):
    from .spec import KDFG, KDFK

    a = ref.attrs
    alg = a["algorithm"]
    if not isinstance(alg, SRef):
        raise OutOfReach("KDF algorithm is not a hash object")
    key = I.rope_of(args[0])
    label = I.rope_of(a["label"])
    context = I.rope_of(a["context"])
    length = I.as_int(a["length"])
    # cryptography raises ValueError for a length it cannot serve (> 2**32-1 blocks) -- outside every caller here
    term = kdf_term(I, alg.term, key, label, context, length)
    I.ctx.assume(blen(term) == Z(length))
    I.ctx.tick("kdf_calls")
    I.ctx.event("kdf", term=term)
    return SBytes(R.Rope([R.full_atom(term)]))


def kdf_term(I, alg_t, key, label, context, length):
    """The spec term for KDF(alg, key, label, context, length); uses the integer view KDFK when the context has
    the key-derivation shape guid(16) ++ 3 x int32 ++ rest (a definitional rewriting, see spec.py)."""
    from .spec import KDFG, KDFK

    ctx = I.ctx
    key_t = R.to_term(ctx, key)
    label_t = R.to_term(ctx, label)
    n = context.length()
    if ctx.entails(Z(n) >= 28):
        g, rest = R.split_at(ctx, context, 16)
        a, rest = R.split_at(ctx, rest, 4)
        b, rest = R.split_at(ctx, rest, 4)
        c, rest = R.split_at(ctx, rest, 4)
        return KDFK(
            alg_t,
            key_t,
            label_t,
            R.to_term(ctx, g),
            Z(R.to_int(ctx, a, "little", True)),
            Z(R.to_int(ctx, b, "little", True)),
            Z(R.to_int(ctx, c, "little", True)),
            R.to_term(ctx, rest),
            Z(length),
        )
    return KDFG(alg_t, key_t, label_t, R.to_term(ctx, context), Z(length))


# ---------------------------------------------------------------------------------------------- DNS (A-NET)
SRV_ELEM = z3.Function("SRV_ELEM", Ref, z3.IntSort(), Ref)  # i-th record of an answer
SRV_TARGET = z3.Function("SRV_TARGET", Ref, Ref)
SRV_PORT = z3.Function("SRV_PORT", Ref, z3.IntSort())
SRV_WEIGHT = z3.Function("SRV_WEIGHT", Ref, z3.IntSort())
SRV_PRIO = z3.Function("SRV_PRIO", Ref, z3.IntSort())
from pyvc.smt import Str  # noqa: E402

NAME_STR = z3.Function("NAME_STR", Ref, Str)  # str(dns.name.Name)


def srv_answer(I, term, n):
    """An SRV answer as a list of arbitrary length n >= 1 of records with arbitrary fields."""
    from pyvc.values import SList

    def elem(j):
        return SRef(SRV_ELEM(term, Z(j)), "SRV")

    return SList(n, elem)


@REG.extern_attribute("SRV", "target")
def _srv_target(I, ref):
    return SRef(SRV_TARGET(ref.term), "Name")


@REG.extern_attribute("SRV", "port")
def _srv_port(I, ref):
    return SRV_PORT(ref.term)


@REG.extern_attribute("SRV", "weight")
def _srv_weight(I, ref):
    return SRV_WEIGHT(ref.term)


@REG.extern_attribute("SRV", "priority")
def _srv_prio(I, ref):
    return SRV_PRIO(ref.term)


@REG.extern_attribute("Name", "__str__")
def _name_str(I, ref):
    from pyvc.values import SStr

    return SStr(NAME_STR(ref.term))


def _resolve(flavour):
    def f(I, fn, args, kw):
        """A-NET: resolve(qname, rdtype, search=...) returns a non-empty answer or raises a DNSException."""
        I.ctx.event("resolve", flavour=flavour, qname=args[0] if args else kw.get("qname"), rdtype=args[1] if len(args) > 1 else kw.get("rdtype"),
                    search=kw.get("search"), extra=sorted(set(kw) - {"search", "qname", "rdtype"}), nargs=len(args))
        from pyvc.smt import fresh_bool, fresh_int, fresh_ref

        if I.branch(fresh_bool("dns_fails")):
            I.raise_("dns.exception.DNSException")
        t = fresh_ref("answer")
        n = fresh_int("answer_len")
        I.ctx.assume(n >= 1)
        ans = srv_answer(I, t, n)
        ans.term = t
        I.ctx.event("answer", term=t, n=n)
        if flavour == "async":
            from pyvc.values import Coro

            return Coro(ans)
        return ans

    return f


REG.externs["dns.resolver.resolve"] = _resolve("sync")
REG.externs["dns.asyncresolver.resolve"] = _resolve("async")
REG.extern_exceptions["dns.exception.DNSException"] = ["Exception", "BaseException", "object"]
