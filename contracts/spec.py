"""Spec vocabulary (DESIGN 3.2): uninterpreted spec functions and their defining axioms.

Written from the public specifications (MS-GKDI 3.1.4.1.2 key derivation, SP800-108), not from the code.
"""
import z3

from pyvc import rope as R
from pyvc.smt import Bytes, Ref, Z, blen, bytes_lit

from . import REG

Int = z3.IntSort()

# SP800-108 counter-mode HMAC KDF as used by Windows ("KDF(HashAlg, KI, Label, Context, L)")  -- A-KDF
KDFG = z3.Function("KDFG", Ref, Bytes, Bytes, Bytes, Int, Bytes)
# the same function on contexts of the form  guid(16) ++ LE32(a) ++ LE32(b) ++ LE32(c) ++ rest :
#   KDFK(alg, key, label, guid, a, b, c, rest, L) := KDFG(alg, key, label, guid ++ LE32s(a) ++ LE32s(b) ++ LE32s(c) ++ rest, L)
# (a definitional view: integer arguments make the derivation-chain axioms linear; see c_gkdi.kdf)
KDFK = z3.Function("KDFK", Ref, Bytes, Bytes, Bytes, Int, Int, Int, Bytes, Int, Bytes)

LABEL = "KDS service\0".encode("utf-16-le")  # MS-GKDI 3.1.4.1.2: the label is the null-terminated Unicode string "KDS service"
LABEL_T = bytes_lit(LABEL)

# Derivation chain below one (hash, L1(31) seed `base`, root key id, L0):
#   L1K(alg, base, g, l0, 31) = base
#   L1K(.., i)    = KDF(alg, L1K(.., i+1), label, g || l0 || i || -1, 512 bits)           0 <= i < 31
#   L2K(.., i,31) = KDF(alg, L1K(.., i),   label, g || l0 || i || 31, 512 bits)
#   L2K(.., i, j) = KDF(alg, L2K(.., i, j+1), label, g || l0 || i || j, 512 bits)         0 <= j < 31
L1K = z3.Function("L1K", Ref, Bytes, Bytes, Int, Int, Bytes)
L2K = z3.Function("L2K", Ref, Bytes, Bytes, Int, Int, Int, Bytes)
# top of the chain from the root key (MS-GKDI 3.1.4.1.2):
#   L0SEED = KDF(alg, rootkey, label, g || l0 || -1 || -1, 512)
#   BASE   = KDF(alg, L0SEED, label, g || l0 || 31 || -1 || SD, 512)
def base_of(alg, rootkey_t, g_t, l0, sd_t):
    l0seed = KDFK(alg, rootkey_t, LABEL_T, g_t, Z(l0), -1, -1, R.EMPTY, 64)
    return KDFK(alg, l0seed, LABEL_T, g_t, Z(l0), 31, -1, sd_t, 64)


_a = z3.Const("a!alg", Ref)
_b = z3.Const("a!base", Bytes)
_g = z3.Const("a!g", Bytes)
_l0, _i, _j = z3.Ints("a!l0 a!i a!j")

REG.axiom(z3.ForAll([_a, _b, _g, _l0], L1K(_a, _b, _g, _l0, 31) == _b, patterns=[L1K(_a, _b, _g, _l0, 31)]), "L1K top", symbols=["L1K"])
REG.axiom(
    z3.ForAll(
        [_a, _b, _g, _l0, _i],
        z3.Implies(
            z3.And(_i >= 0, _i < 31),
            L1K(_a, _b, _g, _l0, _i) == KDFK(_a, L1K(_a, _b, _g, _l0, _i + 1), LABEL_T, _g, _l0, _i, -1, R.EMPTY, 64),
        ),
        patterns=[L1K(_a, _b, _g, _l0, _i)],
    ),
    "L1K step",
    symbols=["L1K"],
)
REG.axiom(
    z3.ForAll(
        [_a, _b, _g, _l0, _i],
        L2K(_a, _b, _g, _l0, _i, 31) == KDFK(_a, L1K(_a, _b, _g, _l0, _i), LABEL_T, _g, _l0, _i, 31, R.EMPTY, 64),
        patterns=[L2K(_a, _b, _g, _l0, _i, 31)],
    ),
    "L2K top",
    symbols=["L2K"],
)
REG.axiom(
    z3.ForAll(
        [_a, _b, _g, _l0, _i, _j],
        z3.Implies(
            z3.And(_j >= 0, _j < 31),
            L2K(_a, _b, _g, _l0, _i, _j) == KDFK(_a, L2K(_a, _b, _g, _l0, _i, _j + 1), LABEL_T, _g, _l0, _i, _j, R.EMPTY, 64),
        ),
        patterns=[L2K(_a, _b, _g, _l0, _i, _j)],
    ),
    "L2K step",
    symbols=["L2K"],
)
# (lengths of KDF outputs are asserted where the terms are created: externs.kbkdf_derive, c_gkdi.kdf)


def in32(x):
    return z3.And(Z(x) >= -(2**31), Z(x) < 2**31)


def in_range(r1, r2):
    return z3.And(Z(r1) >= 0, Z(r1) <= 31, Z(r2) >= 0, Z(r2) <= 31)


def covers(p1, p2, r1, r2):
    """envelope position (p1,p2) is at or after the requested (r1,r2)"""
    return z3.Or(Z(p1) > Z(r1), z3.And(Z(p1) == Z(r1), Z(p2) >= Z(r2)))


# ---------------------------------------------------------------------------------------------- text strings (A-PY)
from pyvc.interp import ENC, STRLEN  # noqa: E402
from pyvc.smt import Str, str_lit  # noqa: E402

_s = z3.Const("a!s", Str)
_cid = z3.Int("a!codec")
REG.axiom(z3.ForAll([_s], z3.And(STRLEN(_s) >= 0, (STRLEN(_s) == 0) == (_s == str_lit(""))), patterns=[STRLEN(_s)]), "len(s) == 0 iff s == ''", symbols=["STRLEN"])
REG.axiom(
    z3.ForAll([_cid, _s], z3.And(blen(ENC(_cid, _s)) >= STRLEN(_s), (blen(ENC(_cid, _s)) == 0) == (STRLEN(_s) == 0)), patterns=[ENC(_cid, _s)]),
    "an encoding (utf-8 / utf-16-le) has at least one byte per character and is empty iff the text is empty",
    symbols=["ENC"],
)


# ---------------------------------------------------------------------------------------------- 256**n (A-PY)
from pyvc.builtins import POW256  # noqa: E402

_m, _n = z3.Ints("a!m a!n")
REG.axiom(z3.ForAll([_m, _n], z3.Implies(z3.And(_m >= 0, _m <= _n), POW256(_m) <= POW256(_n)), patterns=[z3.MultiPattern(POW256(_m), POW256(_n))]),
          "256**m <= 256**n for 0 <= m <= n", symbols=["POW256"])
REG.axiom(z3.ForAll([_m], POW256(_m) >= 1, patterns=[POW256(_m)]), "256**n >= 1", symbols=["POW256"])
REG.axiom(z3.And(*[POW256(k) == 256**k for k in (0, 1, 2, 3, 4, 8, 16)]), "256**k for small concrete k", symbols=["POW256"])
