"""Contracts for KEK derivation and the encrypt / decrypt glue (C03, C19, C04, C01, C06-emission)."""
import z3

from pyvc import rope as R
from pyvc.builtins import POW256
from pyvc.contracts import T
from pyvc.smt import Bytes, Ref, Str, Z, blen, fresh_bytes, fresh_int, fresh_str, str_lit
from pyvc.values import STRCAT, ClassRef, SBytes, SEnum, SObj, SRef, SStr

from . import REG
from .c_client import HASHOBJ, kdf_params_rope
from .c_codecs import kid_fresh, kid_wf, u16z, uf_fields
from .c_gkdi import ALLOWED_HASH, atom, envelope, valid_seed
from .externs import HASH_CONST, kdf_term
from .externs_crypto import CONCATKDF, CURVES, ECDH, ECPUBX, ECPUBY, GCMDEC, GCMENC, GCMOK, KW, KWOK, KWU, MODEXP
from .spec import L2K, LABEL, covers, in32, in_range

KEK_CONTEXT = "KDS public key\0".encode("utf-16-le")  # BCryptDeriveKey KDF_PARTYUINFO
ALG_ID = "SHA512\0".encode("utf-16-le")  # KDF_ALGORITHMID
OTHERINFO = ALG_ID + KEK_CONTEXT + LABEL  # SP800-56A OtherInfo = AlgorithmID || PartyUInfo || PartyVInfo
AES256_WRAP = "2.16.840.1.101.3.4.1.45"
AES256_GCM = "2.16.840.1.101.3.4.1.46"
SHA256 = HASH_CONST["SHA256"]


def lit(c, b):
    return SBytes(R.Rope.lit(b))


def kdf_value(c, alg_t, key, label, context, length):
    t = kdf_term(c.I, alg_t, c.I.rope_of(key), c.I.rope_of(label), c.I.rope_of(context), length)
    c.assume(blen(t) == Z(length))
    return atom(t)


def kek_from_secret(c, alg_t, hash2_t, digest_size, shared):
    """SP800-56A single-step KDF of the shared secret, then SP800-108 with the 'KDS public key' context (32 bytes)"""
    s = CONCATKDF(hash2_t, R.to_term(c.ctx, c.I.rope_of(shared)), R.to_term(c.ctx, R.Rope.lit(OTHERINFO)), Z(digest_size))
    c.assume(blen(s) == Z(digest_size))
    return kdf_value(c, alg_t, atom(s), lit(c, LABEL), lit(c, KEK_CONTEXT), 32)


def be_width(c, x, n):
    t = R.INTB(Z(x), Z(n), 1)
    c.assume(blen(t) == Z(n))
    c.assume(R.VAL_BE(t) == Z(x))
    return atom(t)


def ffck_fields(c, public_key):
    t = R.to_term(c.ctx, c.I.rope_of(public_key))
    f = uf_fields(c.I, "FFCK", t, {"key_length": "int", "field_order": "int", "generator": "int", "public_key": "int"})
    return f


def eck_fields(c, public_key):
    t = R.to_term(c.ctx, c.I.rope_of(public_key))
    return uf_fields(c.I, "ECK", t, {"key_length": "int", "x": "int", "y": "int", "curve_name": "str"})


CURVE_OF = {"P256": ("SECP256R1", "SHA256", 32), "P384": ("SECP384R1", "SHA384", 48), "P521": ("SECP521R1", "SHA512", 64)}


def kek_spec(c, alg_t, secret_algorithm: str, private_key, public_key, curve=None):
    """KEK from a private key and the peer's public key structure (the independent description of the construction)"""
    x = R.to_int(c.ctx, c.I.rope_of(private_key), "big")
    if secret_algorithm == "DH":
        f = ffck_fields(c, public_key)
        shared = be_width(c, MODEXP(Z(f["public_key"]), Z(x), Z(f["field_order"])), f["key_length"])  # fixed width: leading zeros kept
        return kek_from_secret(c, alg_t, SHA256, 32, shared)
    f = eck_fields(c, public_key)
    cname, hname, dsize = CURVE_OF[curve]
    ct = CURVES[cname][0]
    s = ECDH(ct, Z(x), Z(f["x"]), Z(f["y"]))
    c.assume(blen(s) == CURVES[cname][1])
    return kek_from_secret(c, alg_t, HASH_CONST[hname], dsize, atom(s))


# ------------------------------------------------------------------------------------------------ kdf_concat
@REG.contract("dpapi_ng._crypto.kdf_concat", props=["C03"], inline=True)
def kdf_concat(c):
    alg = c.param("algorithm", ALLOWED_HASH)
    secret = c.param("shared_secret", T.Bytes)
    a, u, v = c.param("algorithm_id", T.Bytes), c.param("party_uinfo", T.Bytes), c.param("party_vinfo", T.Bytes)
    n = c.param("length", T.int(1, 64))
    t = CONCATKDF(alg.term, R.to_term(c.ctx, c.I.rope_of(secret)), R.to_term(c.ctx, c.I.rope_of(c.rope(a, u, v))), Z(n))
    c.assume(blen(t) == Z(n))
    c.returns(atom(t))
    c.raises_only(set())


# ------------------------------------------------------------------------------------------------ compute_kek
def _alg_case(c):
    k = c.ctx.choose(4, "secret_algorithm")
    return ["DH", "ECDH_P256", "ECDH_P384", None][k]


@REG.contract("dpapi_ng._gkdi.compute_kek", props=["C03", "C05"])
def compute_kek(c):
    alg = c.param("algorithm", ALLOWED_HASH)
    priv = c.param("private_key", T.Bytes)
    pub = c.param("public_key", T.Bytes)
    if c.verifying:
        sa = _alg_case(c)
        c.param("secret_algorithm", T.const(sa if sa is not None else "RSA"))
        c.param("secret_parameters", T.opt(T.Bytes))
    else:
        sa = c.param("secret_algorithm")
        if not isinstance(sa, str):
            c.inline_instead()
        if sa not in ("DH",) and not sa.startswith("ECDH_P"):
            sa = None
    c.raises("NotImplementedError", when=(sa is None))
    c.raises("ValueError", when=None)  # zero modulus, point not on the curve, private scalar out of range
    c.raises_only({"NotImplementedError", "ValueError"})
    if sa is None:
        c.no_normal_return()
        return
    if sa == "DH":
        f = ffck_fields(c, pub)
        # what FFCDHKey.unpack guarantees about its result: every integer was read from key_length bytes
        p = POW256(Z(f["key_length"]))
        c.assume(z3.And(f["key_length"] >= 0, p >= 1, f["field_order"] >= 0, f["field_order"] < p, f["public_key"] >= 0, f["public_key"] < p, f["generator"] >= 0, f["generator"] < p))
        c.returns(kek_spec(c, alg.term, "DH", priv, pub))
    else:
        f = eck_fields(c, pub)
        curve = ["P256", "P384", "P521"][c.ctx.choose(3, "curve_of_key")]
        c.assume(f["curve_name"].term == str_lit(curve))
        c.assume(z3.And(f["x"] >= 0, f["y"] >= 0))
        c.returns(kek_spec(c, alg.term, sa, priv, pub, curve))


@REG.contract("dpapi_ng._gkdi.compute_kek_from_public_key", props=["C03", "C05"])
def compute_kek_from_public_key(c):
    alg = c.param("algorithm", ALLOWED_HASH)
    seed = c.param("seed", T.bytes(64))
    pub = c.param("public_key", T.Bytes)
    n = c.param("private_key_length", T.int(1, 2**29))
    if c.verifying:
        sa = _alg_case(c)
        c.param("secret_algorithm", T.const(sa if sa is not None else "RSA"))
        c.param("secret_parameters", T.opt(T.Bytes))
    else:
        sa = c.param("secret_algorithm")
        if not isinstance(sa, str):
            c.inline_instead()
        if sa not in ("DH",) and not sa.startswith("ECDH_P"):
            sa = None
    c.raises("NotImplementedError", when=(sa is None))
    c.raises("ValueError", when=None)
    c.raises_only({"NotImplementedError", "ValueError"})
    if sa is None:
        c.no_normal_return()
        return
    # the group private key is derived from the L2 seed: KDF(alg, seed, label, U16Z(secret algorithm), private key length)
    priv = kdf_value(c, alg.term, seed, lit(c, LABEL), lit(c, (sa + "\0").encode("utf-16-le")), n)
    if sa == "DH":
        f = ffck_fields(c, pub)
        p = POW256(Z(f["key_length"]))
        c.assume(z3.And(f["key_length"] >= 0, p >= 1, f["field_order"] >= 0, f["field_order"] < p, f["public_key"] >= 0, f["public_key"] < p, f["generator"] >= 0, f["generator"] < p))
        c.returns(kek_spec(c, alg.term, "DH", priv, pub))
    else:
        f = eck_fields(c, pub)
        curve = ["P256", "P384", "P521"][c.ctx.choose(3, "curve_of_key")]
        c.assume(f["curve_name"].term == str_lit(curve))
        c.assume(z3.And(f["x"] >= 0, f["y"] >= 0))
        c.returns(kek_spec(c, alg.term, sa, priv, pub, curve))


# ------------------------------------------------------------------------------------------------ compute_public_key
def public_key_spec(c, secret_algorithm, private_key, peer_public_key, curve=None):
    """own public value for a private key, packed like the peer's key (same group / curve, same fixed width)"""
    from .c_codecs import ecdh_key_rope, ffcdh_key_rope

    x = R.to_int(c.ctx, c.I.rope_of(private_key), "big")
    if secret_algorithm == "DH":
        f = ffck_fields(c, peer_public_key)
        y = MODEXP(Z(f["generator"]), Z(x), Z(f["field_order"]))
        return ffcdh_key_rope(c, f["key_length"], f["field_order"], f["generator"], y)
    f = eck_fields(c, peer_public_key)
    ct = CURVES[CURVE_OF[curve][0]][0]
    return ecdh_key_rope(c, curve, f["key_length"], ECPUBX(ct, Z(x)), ECPUBY(ct, Z(x)))


@REG.contract("dpapi_ng._gkdi.compute_public_key", props=["C03", "C19"])
def compute_public_key(c):
    priv = c.param("private_key", T.Bytes)
    peer = c.param("peer_public_key", T.Bytes)
    if c.verifying:
        sa = _alg_case(c)
        c.param("secret_algorithm", T.const(sa if sa is not None else "RSA"))
        c.param("secret_parameters", T.opt(T.Bytes))
    else:
        sa = c.param("secret_algorithm")
        if not isinstance(sa, str):
            c.inline_instead()
        if sa not in ("DH",) and not sa.startswith("ECDH_P"):
            sa = None
    c.raises("NotImplementedError", when=(sa is None))
    c.raises("ValueError", when=None)
    # a peer key whose key_length field is smaller than the curve coordinates makes ECDHKey.pack overflow (protect path only:
    # the peer key comes from the domain controller, A-DC; not part of the untrusted-blob pipeline of C05)
    c.raises("OverflowError", when=None, label="optional")
    c.raises_only({"NotImplementedError", "ValueError", "OverflowError"})
    if sa is None:
        c.no_normal_return()
        return
    if sa == "DH":
        f = ffck_fields(c, peer)
        p = POW256(Z(f["key_length"]))
        c.assume(z3.And(f["key_length"] >= 0, f["key_length"] < 2**32, p >= 1, f["field_order"] >= 0, f["field_order"] < p, f["public_key"] >= 0, f["public_key"] < p, f["generator"] >= 0, f["generator"] < p))
        c.returns(public_key_spec(c, "DH", priv, peer))
    else:
        f = eck_fields(c, peer)
        curve = ["P256", "P384", "P521"][c.ctx.choose(3, "curve_of_key")]
        c.assume(f["curve_name"].term == str_lit(curve))
        c.assume(z3.And(f["x"] >= 0, f["y"] >= 0, f["key_length"] >= 0, f["key_length"] < 2**32))
        c.returns(public_key_spec(c, sa, priv, peer, curve))


# ------------------------------------------------------------------------------------------------ get_kek / new_kek
def seed_envelope(c, name, public=False):
    """A group key envelope with well-formed KDF parameters for some hash name; returns (envelope, hash term)"""
    hname = SStr(z3.Const(name + ".hash_name", Str))
    e = c.fresh(envelope(kdf_parameters=T.const(kdf_params_rope(c, hname)), kdf_algorithm=T.const("SP800_108_CTR_HMAC")), name)
    e.ghost["hash_name"] = hname
    return e, HASHOBJ(hname.term)


def key_identifier(c, name):
    f = kid_fresh(c, name)
    c.assume(kid_wf(c, f))
    return SObj(c.I.P.find_class("KeyIdentifier"), {**f, "magic": SBytes(R.Rope.lit(b"KDSK"))})


@REG.contract("dpapi_ng._gkdi.GroupKeyEnvelope.get_kek", props=["C03", "C02", "C04", "C05"])
def get_kek(c):
    I = c.I
    if not c.verifying:
        c.inline_instead()
    self_, alg_t = seed_envelope(c, "self")
    sa = _alg_case(c)
    self_.fields["secret_algorithm"] = sa if sa is not None else "RSA"
    base = fresh_bytes("base")
    self_.ghost["base"] = base
    c.assume(valid_seed(I, alg_t, self_, base))
    c.param("self", T.const(self_))
    kid = key_identifier(c, "key_id")
    c.param("key_id", T.const(kid))
    kf, sf = kid.fields, self_.fields
    is_pub_env = c.mod(sf["flags"], 2) == 1
    g_t = R.to_term(c.ctx, sf["root_key_identifier"].rope)
    ok_pos = z3.And(in_range(kf["l1"], kf["l2"]), covers(sf["l1"], sf["l2"], kf["l1"], kf["l2"]))
    c.raises("ValueError", when=z3.Or(is_pub_env, Z(sf["l0"]) != Z(kf["l0"])), label="not-authorized-or-wrong-l0")
    c.raises("ValueError", when=None)
    c.raises("NotImplementedError", when=None)
    c.raises_only({"ValueError", "NotImplementedError"})
    c.ghost_bound("kdf_calls", 65)  # C05: at most 63 chain steps + the group private key + the KEK itself
    l2k = L2K(alg_t, base, g_t, Z(sf["l0"]), Z(kf["l1"]), Z(kf["l2"]))
    c.assume(blen(l2k) == 64)
    kid_public = c.mod(kf["flags"], 2) == 1

    def result_ok(r):
        # nonce mode: KDF(hash, L2 key of the position named in the key identifier, label, nonce, 32 bytes)
        want_nonce = kdf_value(c, alg_t, atom(l2k), lit(c, LABEL), kf["key_info"], 32)
        out = [ok_pos, z3.Implies(z3.Not(kid_public), Z(c.eq(r, want_nonce)))]
        if sa is not None and c.ctx.entails(kid_public):
            # public-key mode: the group private key is derived from THIS position's L2 key (hence from this security
            # descriptor's chain), then combined with the sender's public value from the key identifier
            n = c.div(Z(sf["private_key_length"]) + 7, 8)
            priv = kdf_value(c, alg_t, atom(l2k), lit(c, LABEL), lit(c, (sa + "\0").encode("utf-16-le")), n)
            if sa == "DH":
                out.append(c.eq(r, kek_spec(c, alg_t, "DH", priv, kf["key_info"])))
            else:
                fe = eck_fields(c, kf["key_info"])
                for curve in ("P256", "P384", "P521"):
                    if c.ctx.entails(fe["curve_name"].term == str_lit(curve)):
                        out.append(c.eq(r, kek_spec(c, alg_t, sa, priv, kf["key_info"], curve)))
        return out

    c.ensures("nonce-mode-kek-is-the-kdf-of-the-named-l2-key-and-nonce", result_ok)
    c.post_exc("a-covered-nonce-mode-request-never-fails-on-a-supported-hash", lambda e: True)


@REG.contract("dpapi_ng._gkdi.GroupKeyEnvelope.new_kek", props=["C03", "C19", "C01"])
def new_kek(c):
    I = c.I
    if not c.verifying:
        c.inline_instead()
    self_, alg_t = seed_envelope(c, "self")
    sa = _alg_case(c)
    self_.fields["secret_algorithm"] = sa if sa is not None else "RSA"
    c.param("self", T.const(self_))
    sf = self_.fields
    c.assume(z3.And(Z(c.len(u16z(c, sf["domain_name"]))) < 2**32))
    c.raises("NotImplementedError", when=None)
    c.raises("ValueError", when=None)
    c.raises("OverflowError", when=None, label="optional")  # from compute_public_key (see there); protect path only
    c.raises_only({"ValueError", "NotImplementedError", "OverflowError"})
    public = c.mod(sf["flags"], 2) == 1

    def ok(r):
        kek, kid = r
        f = kid.fields
        draws = [d for k, d in c.ctx.trace if k == "urandom"]
        copied = [c.eq(f["version"], 1), c.eq(f["flags"], sf["flags"]), c.eq(f["l0"], sf["l0"]), c.eq(f["l1"], sf["l1"]), c.eq(f["l2"], sf["l2"]),
                  c.eq(f["root_key_identifier"], sf["root_key_identifier"]), c.eq(f["domain_name"], sf["domain_name"]), c.eq(f["forest_name"], sf["forest_name"])]
        if len(draws) != 1:
            return False
        draw = atom(draws[0]["term"])
        if c.ctx.entails(z3.Not(public)):
            # nonce mode: a fresh 32-byte nonce is the key info, and the KEK is its KDF under the envelope's L2 key
            want = kdf_value(c, alg_t, sf["l2_key"], lit(c, LABEL), draw, 32)
            return copied + [I.eq(draws[0]["n"], 32), c.eq(f["key_info"], draw), c.eq(kek, want)]
        # public-key mode: a fresh ephemeral private key of ceil(private_key_length / 8) bytes; the KEK comes from it and
        # the group public key in the envelope; the key info is its own public value in the same group / on the same curve
        size = [Z(draws[0]["n"]) * 8 >= Z(sf["private_key_length"]), Z(draws[0]["n"]) * 8 < Z(sf["private_key_length"]) + 8]
        if sa is None:
            return False  # unknown secret agreement algorithms must not produce a key
        if sa == "DH":
            return copied + size + [c.eq(kek, kek_spec(c, alg_t, "DH", draw, sf["l2_key"])), c.eq(f["key_info"], public_key_spec(c, "DH", draw, sf["l2_key"]))]
        fe = eck_fields(c, sf["l2_key"])
        out = []
        for curve in ("P256", "P384", "P521"):
            if c.ctx.entails(fe["curve_name"].term == str_lit(curve)):
                out = [c.eq(kek, kek_spec(c, alg_t, sa, draw, sf["l2_key"], curve)), c.eq(f["key_info"], public_key_spec(c, sa, draw, sf["l2_key"], curve))]
        return copied + size + (out or [False])

    c.ensures("fresh-key-info-and-matching-kek", ok)


# ------------------------------------------------------------------------------------------------ CEK / content primitives
@REG.contract("dpapi_ng._crypto.cek_generate", props=["C19"])
def cek_generate(c):
    if not c.verifying:
        c.inline_instead()
    k = c.ctx.choose(2, "algorithm")
    c.param("algorithm", T.const(SEnum(c.I.P.find_class("AlgorithmOID"), AES256_WRAP, "AES256_WRAP") if k == 0 else "1.2.3"))
    c.raises("NotImplementedError", when=(k == 1))
    c.raises_only({"NotImplementedError"})
    if k == 1:
        c.no_normal_return()
        return

    def ok(r):
        cek, iv = r
        ev = [(kind, d) for kind, d in c.ctx.trace if kind in ("generate_key", "urandom")]
        if [kind for kind, _ in ev] != ["generate_key", "urandom"]:
            return False
        return [c.I.eq(ev[0][1]["bits"], 256), c.eq(cek, atom(ev[0][1]["term"])), c.I.eq(ev[1][1]["n"], 12), c.eq(iv, atom(ev[1][1]["term"]))]

    c.ensures("256-bit-key-from-the-csprng-and-a-separate-12-byte-nonce", ok)


# ------------------------------------------------------------------------------------------------ C03 lemma: both sides agree
@REG.lemma("kek_agree", props=["C03", "C01"])
def kek_agree(c):
    """The KEK computed when encrypting (new_kek) equals the one computed when decrypting (get_kek) from any valid seed
    covering the position, for the key identifier that new_kek produced. A lemma over the two postconditions:
      nonce mode       new: KDF(h, L2K(l1,l2), label, nonce, 32)        get: the same term for the position named in the id;
      public-key mode  new: KEK(secret = y_group ^ x_e)                  get: KEK(secret = y_e ^ x_group), y_group = g ^ x_group (A-DC),
                       y_e = g ^ x_e (compute_public_key), and the two secrets agree by A-DH / A-EC commutation;
                       the fixed-width encodings of the shared secret are then the same term (leading zeros included)."""
    alg = z3.Const("h", Ref)
    # --- nonce mode: identical spec terms by construction; stated for the record
    l2k = fresh_bytes("l2k")
    nonce = fresh_bytes("nonce")
    a = kdf_value(c, alg, atom(l2k), lit(c, LABEL), atom(nonce), 32)
    b = kdf_value(c, alg, atom(l2k), lit(c, LABEL), atom(nonce), 32)
    c.prove("nonce-mode", c.eq(a, b))
    # --- DH
    g, p, n = z3.Ints("g p klen")
    xg, xe = z3.Ints("x_group x_ephemeral")
    c.assume(z3.And(p > 0, n >= 0))
    y_group = MODEXP(g, xg, p)  # A-DC: the envelope's public key is the public value of the group private key
    y_e = MODEXP(g, xe, p)  # compute_public_key postcondition
    enc_secret = be_width(c, MODEXP(y_group, xe, p), n)
    dec_secret = be_width(c, MODEXP(y_e, xg, p), n)
    c.prove("dh-shared-secret-bytes-agree", c.eq(enc_secret, dec_secret))
    c.prove("dh-kek-agree", c.eq(kek_from_secret(c, alg, SHA256, 32, enc_secret), kek_from_secret(c, alg, SHA256, 32, dec_secret)))
    # --- ECDH
    for cname in ("SECP256R1", "SECP384R1"):
        ct, size = CURVES[cname]
        s1 = ECDH(ct, xe, ECPUBX(ct, xg), ECPUBY(ct, xg))
        s2 = ECDH(ct, xg, ECPUBX(ct, xe), ECPUBY(ct, xe))
        c.prove(f"ecdh-{cname}-shared-secret-agree", s1 == s2)


# ------------------------------------------------------------------------------------------------ wrappers around the primitives
def _alg_param(c, name, oid, enum_name):
    k = c.ctx.choose(2, name)
    if k == 0:
        return SEnum(c.I.P.find_class("AlgorithmOID"), oid, enum_name) if c.ctx.branch(z3.Bool(name + "_as_enum")) else oid, True
    return "1.2.840.113549.3.7", False  # some other algorithm


def gcm_parameters(c, nonce):
    """GCMParameters ::= SEQUENCE { aes-nonce OCTET STRING, aes-ICVlen INTEGER } with ICV length 16 (RFC 5084)"""
    from .c_cms import INT_SMALL, OCTETS, SEQ

    return c.rope(SEQ(c, OCTETS(c, nonce), INT_SMALL(c, 16)))


@REG.contract("dpapi_ng._crypto.cek_encrypt", props=["C19", "C01"], inline=True)
def cek_encrypt(c):
    alg, known = _alg_param(c, "algorithm", AES256_WRAP, "AES256_WRAP")
    c.param("algorithm", T.const(alg))
    c.param("parameters", T.opt(T.Bytes))
    kek = c.param("kek", T.bytes(32))
    value = c.param("value", T.bytes(32))
    c.raises("NotImplementedError", when=not known)
    c.raises_only({"NotImplementedError"})
    if known:
        t = KW(R.to_term(c.ctx, kek.rope), R.to_term(c.ctx, value.rope))
        c.returns(atom(t))
    else:
        c.no_normal_return()


@REG.contract("dpapi_ng._crypto.cek_decrypt", props=["C04", "C01", "C05"], inline=True)
def cek_decrypt(c):
    alg, known = _alg_param(c, "algorithm", AES256_WRAP, "AES256_WRAP")
    c.param("algorithm", T.const(alg))
    c.param("parameters", T.opt(T.Bytes))
    kek = c.param("kek", T.bytes(32))
    value = c.param("value", T.Bytes)
    unwrap = "cryptography.hazmat.primitives.keywrap.InvalidUnwrap"
    c.raises("NotImplementedError", when=not known)
    c.raises(unwrap, when=None)
    c.raises("ValueError", when=None, label="optional")
    c.raises_only({"NotImplementedError", unwrap, "ValueError"})
    if known:
        k, w = R.to_term(c.ctx, kek.rope), R.to_term(c.ctx, value.rope)
        c.ensures("the-whole-encrypted-key-is-unwrapped-under-the-kek-and-verified", lambda r: [KWOK(k, w), c.eq(r, atom(KWU(k, w)))])
    else:
        c.no_normal_return()


@REG.contract("dpapi_ng._crypto.content_encrypt", props=["C19", "C01"], inline=True)
def content_encrypt(c):
    alg, known = _alg_param(c, "algorithm", AES256_GCM, "AES256_GCM")
    c.param("algorithm", T.const(alg))
    nonce = c.fresh(T.bytes(12), "nonce")
    c.param("parameters", T.const(gcm_parameters(c, nonce)))
    cek = c.param("cek", T.bytes(32))
    value = c.param("value", T.Bytes)
    c.raises("NotImplementedError", when=not known)
    c.raises_only({"NotImplementedError"})
    if known:
        c.returns(atom(GCMENC(R.to_term(c.ctx, cek.rope), R.to_term(c.ctx, nonce.rope), R.to_term(c.ctx, value.rope))))
    else:
        c.no_normal_return()


@REG.contract("dpapi_ng._crypto.content_decrypt", props=["C04", "C01", "C05"], inline=True)
def content_decrypt(c):
    alg, known = _alg_param(c, "algorithm", AES256_GCM, "AES256_GCM")
    c.param("algorithm", T.const(alg))
    nonce = c.fresh(T.bytes(12), "nonce")
    c.param("parameters", T.const(gcm_parameters(c, nonce)))
    cek = c.param("cek", T.bytes(32))
    value = c.param("value", T.Bytes)
    tag = "cryptography.exceptions.InvalidTag"
    c.raises("NotImplementedError", when=not known)
    c.raises(tag, when=None)
    c.raises_only({"NotImplementedError", tag})
    if known:
        k, n, d = R.to_term(c.ctx, cek.rope), R.to_term(c.ctx, nonce.rope), R.to_term(c.ctx, value.rope)
        # the whole value (ciphertext and tag) is authenticated under the CEK and the nonce from the parameters, no AAD
        c.ensures("authenticated-decryption-of-the-whole-content", lambda r: [GCMOK(k, n, d), c.eq(r, atom(GCMDEC(k, n, d)))])
    else:
        c.no_normal_return()


# ------------------------------------------------------------------------------------------------ _encrypt_blob (C19, C06 emission, C01)
@REG.contract("dpapi_ng._client._encrypt_blob", props=["C19", "C06", "C01"])
def encrypt_blob(c):
    from .c_cms import blob_fresh, cms_layout

    if not c.verifying:
        c.inline_instead()
    plaintext = c.param("blob", T.Bytes)
    key, alg_t = seed_envelope(c, "key")
    kf = key.fields
    c.assume(c.mod(kf["flags"], 2) == 0)  # nonce mode (public-key mode differs only inside new_kek, see its contract)
    c.assume(z3.And(Z(kf["l0"]) >= 0, Z(kf["l0"]) < 2**31, in_range(kf["l1"], kf["l2"])))  # an envelope for a real key position
    c.assume(z3.And(Z(c.len(u16z(c, kf["domain_name"]))) < 2**32, Z(c.len(u16z(c, kf["forest_name"]))) < 2**32))
    c.param("key", T.const(key))
    sid = c.fresh(T.Str, "sid")
    pd = SObj(c.I.P.find_class("SIDDescriptor"), {"type": SEnum(c.I.P.find_class("ProtectionDescriptorType"), "1.3.6.1.4.1.311.74.1.1", "SID"), "value": sid})
    c.param("protection_descriptor", T.const(pd))
    c.raises("NotImplementedError", when=None)  # unsupported hash name in the envelope
    c.raises("ValueError", when=None, label="optional")
    c.raises_only({"NotImplementedError", "ValueError"})

    def ok(r):
        draws = [(k, d) for k, d in c.ctx.trace if k in ("generate_key", "urandom")]
        if [k for k, _ in draws] != ["generate_key", "urandom", "urandom"]:
            return False  # exactly three draws: CEK, GCM nonce, key-identifier nonce
        cek, nonce, ki = (atom(d["term"]) for _, d in draws)
        sizes = [c.I.eq(draws[0][1]["bits"], 256), c.I.eq(draws[1][1]["n"], 12), c.I.eq(draws[2][1]["n"], 32)]
        kek = kdf_value(c, alg_t, kf["l2_key"], lit(c, LABEL), ki, 32)
        f = {
            "kid": {"version": 1, "flags": kf["flags"], "l0": kf["l0"], "l1": kf["l1"], "l2": kf["l2"], "root_key_identifier": kf["root_key_identifier"],
                    "key_info": ki, "domain_name": kf["domain_name"], "forest_name": kf["forest_name"]},
            "sid": sid,
            "enc_cek": atom(KW(R.to_term(c.ctx, kek.rope), R.to_term(c.ctx, cek.rope))),
            "enc_cek_algorithm": AES256_WRAP,
            "enc_cek_parameters": None,
            "enc_content": atom(GCMENC(R.to_term(c.ctx, cek.rope), R.to_term(c.ctx, nonce.rope), R.to_term(c.ctx, c.I.rope_of(plaintext)))),
            "enc_content_algorithm": AES256_GCM,
            "enc_content_parameters": gcm_parameters(c, nonce),
        }
        # one KEKRecipientInfo, versions 2 and 4, AES256-wrap without parameters, AES256-GCM with {12-byte nonce, ICV 16}:
        # all part of the layout equality below
        return sizes + [c.eq(r, cms_layout(c, f, True))]

    c.ensures("emits-the-windows-layout-with-fresh-cek-nonce-and-key-info", ok)


# ------------------------------------------------------------------------------------------------ _decrypt_blob (C04, C01)
@REG.contract("dpapi_ng._client._decrypt_blob", props=["C04", "C01"])
def decrypt_blob(c):
    from .c_cms import blob_fresh, blob_obj

    if not c.verifying:
        c.inline_instead()
    f = blob_fresh(c)
    f["enc_cek_algorithm"] = AES256_WRAP if c.ctx.branch(z3.Bool("known_kek_alg")) else c.fresh(T.Str, "other_kek_alg")
    f["enc_content_algorithm"] = AES256_GCM if c.ctx.branch(z3.Bool("known_content_alg")) else c.fresh(T.Str, "other_content_alg")
    # parameters: absent, or well-formed GCM parameters (malformed parameters are C05's subject)
    if f["enc_content_parameters"] is not None:
        f["enc_content_parameters"] = gcm_parameters(c, c.fresh(T.Bytes, "nonce"))
    blob = blob_obj(c, f)
    c.param("blob", T.const(blob))
    key, alg_t = seed_envelope(c, "key")
    base = fresh_bytes("base")
    key.ghost["base"] = base
    c.assume(valid_seed(c.I, alg_t, key, base))
    c.param("key", T.const(key))
    errs = {"ValueError", "NotImplementedError", "cryptography.exceptions.InvalidTag", "cryptography.hazmat.primitives.keywrap.InvalidUnwrap",
            "dpapi_ng._asn1:NotEnougData"}
    for e in errs:
        c.raises(e, when=None)
    c.raises_only(errs)
    c.ghost_bound("kdf_calls", 65)

    def routed(r):
        """every byte that can influence the plaintext went through the two authenticated primitives, keyed as specified"""
        un = [d for k, d in c.ctx.trace if k == "key_unwrap"]
        de = [d for k, d in c.ctx.trace if k == "gcm_decrypt"]
        if len(un) != 1 or len(de) != 1:
            return False
        kek_t = R.to_term(c.ctx, c.I.rope_of(un[0]["kek"]))
        cek = atom(KWU(kek_t, R.to_term(c.ctx, c.I.rope_of(f["enc_cek"]))))
        return [
            c.eq(un[0]["wrapped"], f["enc_cek"]),  # the whole encrypted key
            c.eq(de[0]["key"], cek),  # the content key is the verified unwrap result, nothing else
            c.eq(de[0]["data"], f["enc_content"]),  # the whole content including the tag
            c.eq(r, atom(GCMDEC(R.to_term(c.ctx, cek.rope), R.to_term(c.ctx, c.I.rope_of(de[0]["nonce"])), R.to_term(c.ctx, c.I.rope_of(f["enc_content"]))))),
        ]

    c.ensures("plaintext-is-the-authenticated-decryption-under-the-unwrapped-cek", routed)


@REG.lemma("tamper", props=["C04"])
def tamper(c):
    """A-IDEAL (cryptographic, assumed): with one honest blob, a successful unwrap under a key that only honest code used
    was produced by the honest wrap, and a successful GCM opening under the honest CEK is the honest encryption. Given the
    routing postcondition of _decrypt_blob, any modified blob that decrypts at all then decrypts to the original plaintext."""
    kek, cek, iv, P = (fresh_bytes(n) for n in ("kek", "cek", "iv", "P"))
    k2, w2, n2, d2 = (fresh_bytes(n) for n in ("kek2", "enc_cek2", "iv2", "enc_content2"))
    honest_w = KW(kek, cek)
    honest_c = GCMENC(cek, iv, P)
    # A-KW / A-GCM (functional) are global axioms; A-IDEAL for this blob:
    c.assume(z3.Implies(KWOK(k2, w2), z3.And(k2 == kek, w2 == honest_w)))
    c.assume(z3.Implies(z3.And(GCMOK(KWU(k2, w2), n2, d2), KWOK(k2, w2)), z3.And(n2 == iv, d2 == honest_c)))
    c.assume(z3.And(KWOK(k2, w2), GCMOK(KWU(k2, w2), n2, d2)))  # the modified blob decrypts (routing postcondition)
    c.prove("decrypts-to-the-original-plaintext", GCMDEC(KWU(k2, w2), n2, d2) == P)
