"""Contracts for dpapi_ng._security_descriptor and SIDDescriptor.get_target_sd (C08), spec from MS-DTYP 2.4.2 / 2.4.4 / 2.4.5 / 2.4.6."""
import ast
import re
import unicodedata

import z3

from pyvc import rope as R
from pyvc.config import bound
from pyvc.contracts import T
from pyvc.smt import Str, Z, blen, fresh_int, fresh_str, str_lit
from pyvc.values import STRCAT, Builtin, OutOfReach, SBytes, SObj, SStr

from . import REG
from .c_asn1 import STR_OF_INT

MAX_SUBS = 15


# ================================================================================================ regular language of accepted SID strings
# Abstract alphabet: every character is classified; the classes are a congruence for the pattern constructs supported.
ALPHABET = ["S", "-", "d", "D", "n", "o"]  # 'S', '-', ASCII digit, non-ASCII decimal digit (Unicode Nd), newline, anything else
WITNESS = {"S": "S", "-": "-", "d": "7", "D": "١", "n": "\n", "o": "x"}


class Unsupported(Exception):
    pass


def _parse(pattern):
    """pattern -> AST over ('lit', set of classes) / ('cat', [..]) / ('alt', [..]) / ('rep', node, lo, hi) / ('bol',) / ('eol',)"""
    pos = 0

    def peek():
        return pattern[pos] if pos < len(pattern) else None

    def atom_():
        nonlocal pos
        ch = peek()
        if ch == "(":
            pos += 1
            if pattern.startswith("?:", pos):
                pos += 2
            elif peek() == "?":
                raise Unsupported("group extension")
            node = alt()
            if peek() != ")":
                raise Unsupported("unbalanced group")
            pos += 1
            return node
        if ch == "[":
            pos += 1
            if peek() == "^":
                raise Unsupported("negated class")
            classes = set()
            while peek() != "]":
                a = peek()
                if a is None:
                    raise Unsupported("unterminated class")
                if a == "\\":
                    pos += 1
                    e = peek()
                    pos += 1
                    if e == "d":
                        classes |= {"d", "D"}
                    else:
                        raise Unsupported(f"class escape \\{e}")
                    continue
                pos += 1
                if peek() == "-" and pos + 1 < len(pattern) and pattern[pos + 1] != "]":
                    b = pattern[pos + 1]
                    pos += 2
                    if (a, b) == ("0", "9"):
                        classes.add("d")
                    else:
                        raise Unsupported(f"range {a}-{b}")
                elif a == "S":
                    classes.add("S")
                elif a == "-":
                    classes.add("-")
                else:
                    raise Unsupported(f"class member {a!r}")
            pos += 1
            return ("lit", frozenset(classes))
        if ch == "\\":
            pos += 1
            e = peek()
            pos += 1
            if e == "d":
                return ("lit", frozenset({"d", "D"}))  # str pattern without re.ASCII: any Unicode decimal digit
            if e == "-":
                return ("lit", frozenset({"-"}))
            if e == "Z":
                return ("eos",)
            raise Unsupported(f"escape \\{e}")
        if ch == "^":
            pos += 1
            return ("bol",)
        if ch == "$":
            pos += 1
            return ("eol",)
        if ch == ".":
            pos += 1
            return ("lit", frozenset({"S", "-", "d", "D", "o"}))
        if ch in "*+?{|)":
            raise Unsupported(f"unexpected {ch}")
        pos += 1
        if ch == "S":
            return ("lit", frozenset({"S"}))
        if ch == "-":
            return ("lit", frozenset({"-"}))
        if ch.isdigit() and ch.isascii():
            raise Unsupported("literal digit")
        raise Unsupported(f"literal {ch!r}")

    def rep():
        nonlocal pos
        node = atom_()
        while True:
            ch = peek()
            if ch == "+":
                pos += 1
                node = ("rep", node, 1, None)
            elif ch == "*":
                pos += 1
                node = ("rep", node, 0, None)
            elif ch == "?":
                pos += 1
                node = ("rep", node, 0, 1)
            elif ch == "{":
                m = re.match(r"\{(\d+)(,(\d*))?\}", pattern[pos:])
                if not m:
                    raise Unsupported("brace")
                lo = int(m.group(1))
                hi = lo if m.group(2) is None else (int(m.group(3)) if m.group(3) else None)
                pos += m.end()
                node = ("rep", node, lo, hi)
            else:
                return node
            if peek() in ("?", "+"):
                raise Unsupported("lazy / possessive quantifier")

    def cat():
        items = []
        while peek() is not None and peek() not in "|)":
            items.append(rep())
        return ("cat", items)

    def alt():
        nonlocal pos
        opts = [cat()]
        while peek() == "|":
            pos += 1
            opts.append(cat())
        return opts[0] if len(opts) == 1 else ("alt", opts)

    node = alt()
    if pos != len(pattern):
        raise Unsupported("trailing input")
    return node


class NFA:
    def __init__(self):
        self.n = 0
        self.eps = {}
        self.tr = {}

    def new(self):
        self.n += 1
        return self.n - 1

    def add_eps(self, a, b):
        self.eps.setdefault(a, set()).add(b)

    def add(self, a, classes, b):
        for cl in classes:
            self.tr.setdefault((a, cl), set()).add(b)


def _build(nfa, node, method):
    """Thompson construction; anchors are only supported where they are vacuous or at the very end (handled by caller)."""
    kind = node[0]
    if kind == "lit":
        a, b = nfa.new(), nfa.new()
        nfa.add(a, node[1], b)
        return a, b
    if kind == "cat":
        a = b = nfa.new()
        for it in node[1]:
            if it[0] in ("bol", "eol", "eos"):
                raise Unsupported("anchor inside the pattern")
            x, y = _build(nfa, it, method)
            nfa.add_eps(b, x)
            b = y
        return a, b
    if kind == "alt":
        a, b = nfa.new(), nfa.new()
        for it in node[1]:
            x, y = _build(nfa, it, method)
            nfa.add_eps(a, x)
            nfa.add_eps(y, b)
        return a, b
    if kind == "rep":
        _, sub, lo, hi = node
        a = b = nfa.new()
        for _ in range(lo):
            x, y = _build(nfa, sub, method)
            nfa.add_eps(b, x)
            b = y
        if hi is None:
            x, y = _build(nfa, sub, method)
            nfa.add_eps(b, x)
            nfa.add_eps(y, x)
            end = nfa.new()
            nfa.add_eps(b, end)
            nfa.add_eps(y, end)
            b = end
        else:
            end = nfa.new()
            nfa.add_eps(b, end)
            for _ in range(hi - lo):
                x, y = _build(nfa, sub, method)
                nfa.add_eps(b, x)
                nfa.add_eps(y, end)
                b = y
            b = end
        return a, b
    raise Unsupported(kind)


def accepted_language(pattern, method):
    """NFA (start, accepting set, nfa) of the set of strings s for which re.compile(pattern).<method>(s) is not None."""
    node = _parse(pattern)
    items = list(node[1]) if node[0] == "cat" else [node]
    if items and items[0][0] == "bol":
        items = items[1:]  # match / fullmatch start at position 0 anyway
    end_anchor = None
    if items and items[-1][0] in ("eol", "eos"):
        end_anchor = items[-1][0]
        items = items[:-1]
    nfa = NFA()
    a, b = _build(nfa, ("cat", items), method)
    acc = {b}
    if method == "fullmatch":
        pass  # the whole string must be consumed; a trailing '$' or '\Z' is then vacuous
    elif method == "match":
        if end_anchor is None:
            loop = nfa.new()  # anything may follow
            nfa.add_eps(b, loop)
            nfa.add(loop, ALPHABET, loop)
            acc = {b, loop}
        elif end_anchor == "eol":
            nl = nfa.new()  # '$' also matches just before a final newline
            nfa.add(b, ["n"], nl)
            acc = {b, nl}
    else:
        raise Unsupported(method)
    return a, acc, nfa


def canonical_language():
    nfa = NFA()
    a, acc, nfa = accepted_language(r"S-[0-9]-[0-9]+(?:-[0-9]+){1,15}", "fullmatch")
    return a, acc, nfa


def _closure(nfa, states):
    out = set(states)
    stack = list(states)
    while stack:
        s = stack.pop()
        for t in nfa.eps.get(s, ()):
            if t not in out:
                out.add(t)
                stack.append(t)
    return frozenset(out)


def language_difference(pattern, method):
    """None if L(pattern, method) == canonical SID syntax, else a shortest distinguishing word (concrete string) and which
    side accepts it."""
    a1, acc1, n1 = accepted_language(pattern, method)
    a2, acc2, n2 = canonical_language()
    start = (_closure(n1, {a1}), _closure(n2, {a2}))
    seen = {start: None}
    queue = [start]
    while queue:
        cur = queue.pop(0)
        s1, s2 = cur
        in1, in2 = bool(s1 & acc1), bool(s2 & acc2)
        if in1 != in2:
            word = []
            k = cur
            while seen[k] is not None:
                k, ch = seen[k]
                word.append(ch)
            return "".join(WITNESS[ch] for ch in reversed(word)), ("accepted by the code, not canonical" if in1 else "canonical, rejected by the code")
        for ch in ALPHABET:
            t1 = _closure(n1, set().union(*[n1.tr.get((s, ch), set()) for s in s1])) if s1 else frozenset()
            t2 = _closure(n2, set().union(*[n2.tr.get((s, ch), set()) for s in s2])) if s2 else frozenset()
            nxt = (t1, t2)
            if nxt not in seen:
                seen[nxt] = (cur, ch)
                queue.append(nxt)
    return None


def find_sid_regex(func_node, module_node=None):
    """(pattern, method) used by sid_to_bytes: re.compile(<literal>) - in the function or hoisted to a module-level constant that
    the function uses - and the method applied to the input string."""
    pattern = None
    names = set()
    method = None
    used = {n.id for n in ast.walk(func_node) if isinstance(n, ast.Name)}
    module_assigns = [n for n in (module_node.body if module_node is not None else []) if isinstance(n, (ast.Assign, ast.AnnAssign))]
    for n in module_assigns:
        if isinstance(n, ast.AnnAssign) and n.value is not None:
            n = ast.Assign(targets=[n.target], value=n.value)
        if isinstance(n, ast.Assign) and isinstance(n.value, ast.Call) and ast.unparse(n.value.func) == "re.compile" and {t.id for t in n.targets if isinstance(t, ast.Name)} & used:
            if len(n.value.args) != 1 or n.value.keywords or not isinstance(n.value.args[0], ast.Constant):
                raise Unsupported("re.compile with flags or a computed pattern")
            pattern = n.value.args[0].value
            names |= {t.id for t in n.targets if isinstance(t, ast.Name)} & used
    for n in ast.walk(func_node):
        if isinstance(n, ast.Assign) and isinstance(n.value, ast.Call) and ast.unparse(n.value.func) == "re.compile":
            if len(n.value.args) != 1 or n.value.keywords or not isinstance(n.value.args[0], ast.Constant):
                raise Unsupported("re.compile with flags or a computed pattern")
            pattern = n.value.args[0].value
            names |= {t.id for t in n.targets if isinstance(t, ast.Name)}
    for n in ast.walk(func_node):
        if isinstance(n, ast.Call) and isinstance(n.func, ast.Attribute) and isinstance(n.func.value, ast.Name) and n.func.value.id in names:
            method = n.func.attr
    if pattern is None or method is None:
        raise Unsupported("no re.compile(...).match/fullmatch in the function")
    return pattern, method


# ================================================================================================ token strings
class SidText(SStr):
    """A string of the canonical SID syntax: 'S-' r '-' a ('-' s_i){n}, every number in canonical decimal."""

    def __init__(self, r, a, subs):
        t = STRCAT(str_lit("S"), STRCAT(str_lit("-"), STR_OF_INT(Z(r))))
        for v in [a] + list(subs):
            t = STRCAT(t, STRCAT(str_lit("-"), STR_OF_INT(Z(v))))
        super().__init__(t)
        self.r, self.a, self.subs = r, a, list(subs)


class OtherText(SStr):
    """Any string that is NOT in the canonical SID syntax."""


def _regex_match(I, rx, name, s):
    if isinstance(s, (SidText, OtherText)):
        # justified by the regex.language obligation of sid_to_bytes: the accepted language IS the canonical syntax
        return Builtin("re.Match", bound=s) if isinstance(s, SidText) else None
    raise OutOfReach("regex match on a symbolic string")


def _str_method(I, obj, name, args, kw):
    if isinstance(obj, SidText) and name == "split" and args == ["-"]:
        return ["S"] + [SStr(STR_OF_INT(Z(v))) for v in [obj.r, obj.a] + obj.subs]
    return NotImplemented


REG.hooks["regex_match"] = _regex_match
REG.hooks["str_method"] = _str_method


# ================================================================================================ MS-DTYP spec ropes
def sid_rope(c, r, a, subs):
    """SID (2.4.2.2): Revision u8, SubAuthorityCount u8, IdentifierAuthority 6 bytes big-endian, SubAuthority u32 little-endian each"""
    return c.rope(c.le(r, 1), bytes([len(subs)]), c.be(a, 6), *[c.le(s, 4) for s in subs])


def ace_rope(c, sid_bytes, mask):
    """ACCESS_ALLOWED_ACE (2.4.4.2): AceType 0, AceFlags 0, AceSize u16 = 8 + len(Sid), Mask u32, Sid"""
    return c.rope(b"\x00\x00", c.le(8 + Z(c.len(sid_bytes)), 2), c.le(mask, 4), sid_bytes)


def acl_rope(c, aces):
    """ACL (2.4.5): AclRevision 2, Sbz1 0, AclSize u16 = 8 + sum(len(ace)), AceCount u16, Sbz2 0, ACEs"""
    body = c.rope(*aces)
    return c.rope(b"\x02\x00", c.le(8 + Z(c.len(body)), 2), c.le(len(aces), 2), b"\x00\x00", body)


def sd_rope(c, owner, group, dacl):
    """SECURITY_DESCRIPTOR self-relative (2.4.6): Revision 1, Sbz1 0, Control = SR | DP, OffsetOwner, OffsetGroup, OffsetSacl 0,
    OffsetDacl 20; then Dacl, Owner, Group in the order MS-GKDI expects"""
    control = 0x8000 | 0x0004
    off_dacl = 20
    off_owner = off_dacl + Z(c.len(dacl))
    off_group = off_owner + Z(c.len(owner))
    return c.rope(b"\x01\x00", c.le(control, 2), c.le(off_owner, 4), c.le(off_group, 4), c.le(0, 4), c.le(off_dacl, 4), dacl, owner, group)


SYSTEM = (1, 5, [18])
EVERYONE = (1, 1, [0])


def target_sd_rope(c, r, a, subs):
    """MS-GKDI target SD for a SID: owner and group SYSTEM, DACL = allow(sid, 3), allow(Everyone, 2)"""
    dacl = acl_rope(c, [ace_rope(c, sid_rope(c, r, a, subs), 3), ace_rope(c, sid_rope(c, *EVERYONE), 2)])
    return sd_rope(c, sid_rope(c, *SYSTEM), sid_rope(c, *SYSTEM), dacl)


def sid_case(c, prefix="sid"):
    """A canonical SID string with n in 1..15 sub authorities and arbitrary non-negative numbers (r a single digit)."""
    n = 1 + c.ctx.choose(MAX_SUBS, prefix + ".count")
    r = c.fresh(T.int(0, 9), prefix + ".revision")
    a = c.fresh(T.int(0), prefix + ".authority")
    subs = [c.fresh(T.int(0), f"{prefix}.sub{i}") for i in range(n)]
    return SidText(r, a, subs), r, a, subs


def sid_in_range(a, subs):
    return z3.And(Z(a) < 2**48, *[Z(s) < 2**32 for s in subs])


# ================================================================================================ contracts
@REG.contract("dpapi_ng._security_descriptor.sid_to_bytes", props=["C08", "C05"])
def sid_to_bytes(c):
    if not c.verifying:
        s = c.param("sid")
        if isinstance(s, str):
            c.inline_instead()
        if isinstance(s, SidText):
            ok = sid_in_range(s.a, s.subs)
            c.raises("ValueError", when=z3.Not(ok))
            c.returns(sid_rope(c, s.r, s.a, s.subs))
            return
        if isinstance(s, OtherText):
            c.raises("ValueError", when=True)
            c.returns(c.rope())
            return
        # any other text: canonical (some SID bytes) or rejected
        c.raises("ValueError", when=None)
        n = fresh_int("sid_len")
        c.assume(z3.And(n >= 12, n <= 68, c.mod(n, 4) == 0))
        c.returns(c.fresh(T.bytes(n), "sid_bytes"))
        return
    # 1) the accepted language is exactly the canonical syntax (decided on automata, with a witness string when not)
    fi = c.fi
    try:
        pattern, method = find_sid_regex(fi.node, c.I.P.module_ast.get(fi.module))
        diff = language_difference(pattern, method)
        detail = "" if diff is None else f"{diff[0]!r}: {diff[1]} (pattern {pattern!r}, method {method})"
        c.ctx.prove("dpapi_ng._security_descriptor.sid_to_bytes/regex.language-is-the-canonical-sid-syntax", diff is None, detail)
        if diff is not None:
            c.replay(setup=f"args['sid'] = {diff[0]!r}\n", oracle="def oracle(args, out, env):\n    return None if out.get('kind') == 'raise' and out.get('type') == 'ValueError' else 'a non-canonical SID string was accepted or crashed: %r' % (out,)\n")
    except Unsupported as e:
        from pyvc.path import Obligation

        c.ctx.obligations.append(Obligation("dpapi_ng._security_descriptor.sid_to_bytes/regex.language-is-the-canonical-sid-syntax", "undischarged", f"cannot decide: {e}"))
    # 2) the body, on canonical strings (values symbolic) and on non-canonical strings
    if c.ctx.branch(z3.Bool("non_canonical_text")):
        c.param("sid", T.const(OtherText(fresh_str("other"))))
        c.raises("ValueError", when=True)
        c.raises_only({"ValueError"})
        c.no_normal_return()
        return
    s, r, a, subs = sid_case(c)
    c.param("sid", T.const(s))
    ok = sid_in_range(a, subs)
    c.raises("ValueError", when=z3.Not(ok))  # out of range values are rejected, never truncated or crashed on
    c.raises_only({"ValueError"})
    c.returns(sid_rope(c, r, a, subs))


@REG.contract("dpapi_ng._security_descriptor.ace_to_bytes", props=["C08"], inline=True)
def ace_to_bytes(c):
    s, r, a, subs = sid_case(c)
    c.assume(sid_in_range(a, subs))
    c.param("sid", T.const(s))
    mask = c.param("access_mask", T.int(0, 2**32 - 1))
    c.returns(ace_rope(c, sid_rope(c, r, a, subs), mask))
    c.raises_only(set())


@REG.contract("dpapi_ng._security_descriptor.acl_to_bytes", props=["C08"], inline=True)
def acl_to_bytes(c):
    n = c.ctx.choose(4, "n_aces")
    aces = [c.fresh(T.bytes(max_len=80), f"ace{i}") for i in range(n)]
    c.param("aces", T.const(list(aces)))
    c.returns(acl_rope(c, aces))
    c.raises_only(set())


@REG.contract("dpapi_ng._blob.SIDDescriptor.get_target_sd", props=["C08", "C01", "C05"])
def get_target_sd(c):
    cls = c.I.P.find_class("SIDDescriptor")
    ptype = c.I.from_dump(c.I.P.class_attr(cls, "type"))
    if not c.verifying:
        self_ = c.param("self")
        v = self_.fields["value"]
        if isinstance(v, (str, SidText)):
            c.inline_instead()
        # arbitrary text (e.g. from an untrusted blob): the SD of some SID, or ValueError
        c.raises("ValueError", when=None)
        t = z3.Function("TARGET_SD", Str, R.Bytes)(c.I.str_term(v))
        c.assume(z3.And(blen(t) >= 20, blen(t) <= 400))
        c.returns(SBytes(R.Rope([R.full_atom(t)])))
        return
    if c.ctx.branch(z3.Bool("non_canonical_text")):
        c.param("self", T.const(SObj(cls, {"type": ptype, "value": OtherText(fresh_str("other"))})))
        c.raises("ValueError", when=True)
        c.raises_only({"ValueError"})
        c.no_normal_return()
        return
    s, r, a, subs = sid_case(c)
    c.param("self", T.const(SObj(cls, {"type": ptype, "value": s})))
    ok = sid_in_range(a, subs)
    c.raises("ValueError", when=z3.Not(ok))
    c.raises_only({"ValueError"})
    c.returns(target_sd_rope(c, r, a, subs))


@REG.lemma("sid_injective", props=["C08"])
def sid_injective(c):
    """Distinct SIDs give distinct SID bytes (hence distinct target SDs): the count octet and fixed-width fields make the
    layout a length-prefixed encoding. Stated for equal counts (different counts differ in octet 1 / in length)."""
    n = 1 + c.ctx.choose(bound(4, MAX_SUBS), "count")
    r1, r2 = c.fresh(T.int(0, 9), "r1"), c.fresh(T.int(0, 9), "r2")
    a1, a2 = c.fresh(T.int(0, 2**48 - 1), "a1"), c.fresh(T.int(0, 2**48 - 1), "a2")
    s1 = [c.fresh(T.int(0, 2**32 - 1), f"s1_{i}") for i in range(n)]
    s2 = [c.fresh(T.int(0, 2**32 - 1), f"s2_{i}") for i in range(n)]
    same_bytes = c.eq(sid_rope(c, r1, a1, s1), sid_rope(c, r2, a2, s2))
    same_sid = z3.And(r1 == r2, a1 == a2, *[x == y for x, y in zip(s1, s2)])
    c.prove("equal-bytes-imply-equal-sid", c.implies(same_bytes, same_sid))
