"""Contracts for dpapi_ng._asn1 (C07; used by C06 and C05). Spec written from X.690 (DER)."""
import z3

from pyvc import rope as R
from pyvc.config import bound
from pyvc.contracts import T
from pyvc.smt import Bytes, Z, blen, fresh_bytes, fresh_int
from pyvc.values import ClassRef, PathEnd, SBytes, SEnum, SObj, SView

from . import REG

MAX_INT_OCTETS = bound(8, 16)  # INTEGER content octets covered by the complete case split (B)
MAX_B128 = 9  # base-128 digits: every number below 2**63
TAG_DIGITS = bound(9, 9)  # base-128 digits of high tag numbers in the TLV proofs (tag numbers < 2**28 / 2**63)

DERLEN_T = z3.Function("DERLEN", z3.IntSort(), Bytes)  # the DER length octets of n, as one opaque value at call sites
_n = z3.Int("a!n")
REG.axiom(
    z3.ForAll([_n], blen(DERLEN_T(_n)) == z3.If(_n < 128, 1, z3.If(_n < 2**8, 2, z3.If(_n < 2**16, 3, z3.If(_n < 2**24, 4, z3.If(_n < 2**32, 5, z3.If(
        _n < 2**40, 6, z3.If(_n < 2**48, 7, z3.If(_n < 2**56, 8, 9)))))))), patterns=[DERLEN_T(_n)]),
    "number of DER length octets (X.690 8.1.3, minimal form, n < 2**63)",
    symbols=["DERLEN"],
)


def cls_(c, name):
    return c.I.P.find_class(name)


def tagclass(c, v):
    names = {0: "UNIVERSAL", 1: "APPLICATION", 2: "CONTEXT_SPECIFIC", 3: "PRIVATE"}
    return SEnum(cls_(c, "TagClass"), v, names.get(v) if isinstance(v, int) else None)


def b128_rope(c, num, digits):
    """base-128 big-endian digits of num (exactly `digits` of them), continuation bit on all but the last"""
    # digits by the progressive chain num = 128*q1 + d0, q1 = 128*q2 + d1, ... (least significant first)
    ds = []
    q = num
    for j in range(digits):
        ds.append(c.mod(q, 128))
        q = c.div(q, 128)
    parts = [c.le(Z(ds[j]) + (128 if j else 0), 1) for j in range(digits - 1, -1, -1)]
    return c.rope(*parts)


def ident_rope(c, tclass, constructed_int, num, digits=None):
    """X.690 8.1.2: class (2 bits) | P/C (1 bit) | tag number (5 bits), or 31 and the number in base 128"""
    first = Z(tclass) * 64 + Z(constructed_int) * 32
    if digits is None:
        return c.rope(c.le(first + Z(num), 1))
    return c.rope(c.le(first + 31, 1), b128_rope(c, num, digits))


def ident_bytes(tclass: int, constructed: bool, num: int) -> bytes:
    first = (tclass << 6) | ((1 if constructed else 0) << 5)
    if num < 31:
        return bytes([first | num])
    out = [num & 0x7F]
    num >>= 7
    while num:
        out.append(0x80 | (num & 0x7F))
        num >>= 7
    return bytes([first | 31]) + bytes(reversed(out))


def derlen_rope(c, n, k):
    """X.690 8.1.3 definite form, minimal: k = 0 short form (n < 128); k >= 1 long form with k length octets"""
    if k == 0:
        return c.rope(c.le(n, 1))
    return c.rope(bytes([0x80 | k]), c.be(n, k))


def derlen_case(c, n, label="len_octets"):
    """case split on the form of the length; returns k and assumes the matching range"""
    k = c.ctx.choose(9, label)
    if k == 0:
        c.assume(z3.And(Z(n) >= 0, Z(n) < 128))
    elif k == 1:
        c.assume(z3.And(Z(n) >= 128, Z(n) < 256))
    else:
        c.assume(z3.And(Z(n) >= 256 ** (k - 1), Z(n) < 256**k))
    return k


def derlen_atom(c, n):
    t = DERLEN_T(Z(n))
    return SBytes(R.Rope([R.full_atom(t)]))


def b128_case(c, num, label="digits", max_digits=MAX_B128):
    d = 1 + c.ctx.choose(max_digits, label)
    c.assume(z3.And(Z(num) >= (128 ** (d - 1) if d > 1 else 0), Z(num) < 128**d))
    return d


# ================================================================================================ _pack_asn1
@REG.contract("dpapi_ng._asn1._pack_asn1", props=["C07", "C06"])
def pack_asn1(c):
    I = c.I
    if c.verifying:
        tc = c.fresh(T.int(-1, 4), "tag_class")
        c.param("tag_class", T.const(tagclass(c, tc)))
        constructed = c.param("constructed", T.Bool)
        num = c.param("tag_number", T.int(0, 128**TAG_DIGITS - 1))
        data = c.param("data", T.Bytes)
        bad = z3.Or(Z(tc) < 0, Z(tc) > 3)
        c.raises("ValueError", when=bad)
        c.raises_only({"ValueError"})
        ci = z3.If(constructed, 1, 0)
        if c.ctx.branch(Z(num) < 31):
            ident = ident_rope(c, tc, ci, num)
        else:
            ident = ident_rope(c, tc, ci, num, b128_case(c, num, "tag_digits", TAG_DIGITS))
        n = c.len(data)
        k = derlen_case(c, n)
        c.returns(c.rope(ident, derlen_rope(c, n, k), data))
    else:
        tc = I.as_int(c.param("tag_class"))
        constructed = c.param("constructed")
        num = I.as_int(c.param("tag_number"))
        data = c.param("data")
        if not (isinstance(tc, int) and isinstance(constructed, bool) and isinstance(num, int)) or not 0 <= tc <= 3:
            c.inline_instead()
        c.raises_only(set())
        c.returns(c.rope(ident_bytes(tc, constructed, num), derlen_atom(c, c.len(data)), data))


# ================================================================================================ header reader
TYPE_TAG_MEMBERS = list(range(0, 37))


def header_obj(c, tclass, num, constructed, tag_length, length, universal_enum=True):
    tag_number = SEnum(cls_(c, "TypeTagNumber"), num) if (universal_enum and isinstance(tclass, int) and tclass == 0) else num
    tag = SObj(cls_(c, "ASN1Tag"), {"tag_class": tagclass(c, tclass), "tag_number": tag_number, "is_constructed": constructed})
    return SObj(cls_(c, "ASN1Header"), {"tag": tag, "tag_length": tag_length, "length": length})


def match_tlv_head(c, rope):
    """call-mode structural match: rope = ident literal ++ DERLEN atom ++ rest -> (tclass, constructed, num, ident_len, n) or None"""
    segs = rope.segs
    if len(segs) < 2 or not isinstance(segs[0], R.Lit):
        return None
    lit = segs[0].data
    first = lit[0]
    tclass, constructed, num = first >> 6, bool(first & 32), first & 31
    pos = 1
    if num == 31:
        num = 0
        while True:
            if pos >= len(lit):
                return None
            b = lit[pos]
            pos += 1
            num = (num << 7) | (b & 0x7F)
            if not b & 0x80:
                break
    if pos != len(lit):
        return None
    a = segs[1]
    if not (isinstance(a, R.Atom) and a.is_full() and z3.is_app(a.term) and a.term.decl().eq(DERLEN_T)):
        return None
    return tclass, constructed, num, pos, a.term.arg(0)


# summaries of the readers on arbitrary (opaque) bytes, registered by c_untrusted (C05) where they are verified
OPAQUE_SUMMARY = {}


def opaque(rope):
    """the bytes are not one of the structured spec ropes: nothing is known about their head"""
    return bool(rope.segs) and isinstance(rope.segs[0], R.Atom) and not (z3.is_app(rope.segs[0].term) and rope.segs[0].term.decl().name() in ("DERLEN", "OIDCONTENT"))


@REG.contract("dpapi_ng._asn1._read_asn1_header", props=["C07", "C06", "C05"])
def read_asn1_header(c):
    I = c.I
    if c.verifying:
        tc = c.ctx.choose(4, "tag_class")
        constructed = c.fresh(T.Bool, "constructed")
        num = c.fresh(T.int(0, 128**TAG_DIGITS - 1), "tag_number")
        if tc == 0:
            c.assume(Z(num) <= 36)  # universal tags are read back as TypeTagNumber members
        n = c.fresh(T.int(0, 2**63 - 1), "length")
        rest = c.fresh(T.Bytes, "rest")
        ci = z3.If(constructed, 1, 0)
        if c.ctx.branch(Z(num) < 31):
            ident = ident_rope(c, tc, ci, num)
        else:
            ident = ident_rope(c, tc, ci, num, b128_case(c, num, "tag_digits", TAG_DIGITS))
        k = derlen_case(c, n)
        dl = derlen_rope(c, n, k)
        c.param("data", T.const(c.rope(ident, dl, rest)))
        c.raises_only(set())
        c.returns(header_obj(c, tc, num, constructed, Z(c.len(ident)) + Z(c.len(dl)), n))
    else:
        data = c.param("data")
        m = match_tlv_head(c, I.rope_of(data))
        if m is None:
            if opaque(I.rope_of(data)):
                return OPAQUE_SUMMARY["header"](c, data)
            c.inline_instead()
        tclass, constructed, num, ident_len, n = m
        if tclass == 0 and num not in TYPE_TAG_MEMBERS:
            c.inline_instead()
        c.raises_only(set())
        c.returns(header_obj(c, tclass, num, constructed, ident_len + blen(DERLEN_T(n)), n))


# ================================================================================================ tags
def tag_obj(c, tclass, num, constructed):
    tn = SEnum(cls_(c, "TypeTagNumber"), num) if (isinstance(tclass, int) and tclass == 0) else num
    return SObj(cls_(c, "ASN1Tag"), {"tag_class": tagclass(c, tclass), "tag_number": tn, "is_constructed": constructed})


SAMPLE_TAGS = [(2, 0, True), (2, 2, False), (1, 5, False), (3, 30, True), (2, 31, False), (1, 1000, True)]


def some_tag(c, prefix="tag", allow_none=True, few=False):
    """None (the type's universal tag is used) or one of a few explicit tags of the other classes, incl. tag numbers
    above 30. (Full generality over class / number / constructed is proved in _pack_asn1 and _read_asn1_header; the
    typed readers and writers only pass the tag through.)"""
    tags = SAMPLE_TAGS[:2] if few else SAMPLE_TAGS
    k = c.ctx.choose(len(tags) + (1 if allow_none else 0), prefix)
    if allow_none and k == len(tags):
        return None
    tc, num, cons = tags[k]
    return tag_obj(c, tc, num, cons)


def tag_ident(c, tag, universal_num, universal_constructed=False):
    if tag is None:
        return c.rope(ident_bytes(0, universal_constructed, universal_num))
    f = tag.fields
    return c.rope(ident_bytes(c.I.as_int(f["tag_class"]), f["is_constructed"], c.I.as_int(f["tag_number"])))


def tlv(c, ident, content):
    """identifier ++ length ++ content, the length octets as the opaque DERLEN value (its expansion into the short /
    long minimal form is what _pack_asn1 and _read_asn1_header are verified against)"""
    return c.rope(ident, derlen_atom(c, c.len(content)), content)


# ================================================================================================ INTEGER (X.690 8.3)
def int_case(c, v, label="int_octets", max_octets=None):
    """case split on the number m of content octets of the minimal two's complement encoding of v (1..MAX_INT_OCTETS)"""
    m = 1 + c.ctx.choose(max_octets or MAX_INT_OCTETS, label)
    hi = 2 ** (8 * m - 1)
    conj = [Z(v) >= -hi, Z(v) < hi]
    if m > 1:
        lo = 2 ** (8 * (m - 1) - 1)
        conj.append(z3.Or(Z(v) < -lo, Z(v) >= lo))
    c.assume(z3.And(*conj))
    return m


def derint_rope(c, v, m):
    """minimal two's complement, big-endian, m octets"""
    return c.rope(c.be(z3.If(Z(v) < 0, Z(v) + 256**m, Z(v)), m))


@REG.contract("dpapi_ng._asn1._pack_asn1_integer", props=["C07"])
def pack_asn1_integer(c):
    if not c.verifying:
        v = c.param("value")
        tag = c.param("tag")
        if isinstance(v, int) or not (tag is None or isinstance(tag.fields["is_constructed"], bool)):
            c.inline_instead()  # concrete values are simply executed
        m = int_case(c, v)
        c.returns(tlv(c, tag_ident(c, tag, 2), derint_rope(c, v, m)))
        c.raises_only(set())
        return
    v = c.param("value", T.Int)
    tag = c.param("tag", T.const(some_tag(c)))
    m = int_case(c, v)
    c.returns(tlv(c, tag_ident(c, tag, 2), derint_rope(c, v, m)))
    c.raises_only(set())
    c.loop(0, unroll=MAX_INT_OCTETS + 2)


@REG.contract("dpapi_ng._asn1._read_asn1_integer", props=["C07"])
def read_asn1_integer(c):
    if not c.verifying:
        data = c.param("data")
        if c.param("tag") is None and c.param("header") is None and opaque(c.I.rope_of(data)):
            return OPAQUE_SUMMARY["integer"](c, data)
        c.inline_instead()
    v = c.fresh(T.Int, "value")
    tag = some_tag(c)
    m = int_case(c, v)
    rest = c.fresh(T.Bytes, "rest")
    enc = tlv(c, tag_ident(c, tag, 2), derint_rope(c, v, m))
    c.param("data", T.const(SBytes(c.rope(enc, rest).rope, "memoryview")))
    c.param("tag", T.const(tag))
    c.returns((v, c.len(enc)))
    c.raises_only(set())


# ================================================================================================ BOOLEAN, ENUMERATED, strings
@REG.contract("dpapi_ng._asn1._pack_asn1_boolean", props=["C07"], inline=True)
def pack_asn1_boolean(c):
    v = c.param("value", T.Bool)
    tag = c.param("tag", T.const(some_tag(c)))
    # X.690 11.1: TRUE is FF in DER
    content = c.rope(b"\xff") if c.ctx.branch(v) else c.rope(b"\x00")
    c.returns(tlv(c, tag_ident(c, tag, 1), content))
    c.raises_only(set())


@REG.contract("dpapi_ng._asn1._read_asn1_boolean", props=["C07"], inline=True)
def read_asn1_boolean(c):
    tag = some_tag(c)
    v = bool(c.ctx.branch(z3.Bool("value")))
    rest = c.fresh(T.Bytes, "rest")
    enc = tlv(c, tag_ident(c, tag, 1), c.rope(b"\xff" if v else b"\x00"))
    c.param("data", T.const(SBytes(c.rope(enc, rest).rope, "memoryview")))
    c.param("tag", T.const(tag))
    c.returns((v, c.len(enc)))
    c.raises_only(set())


@REG.contract("dpapi_ng._asn1._pack_asn1_enumerated", props=["C07"], inline=True)
def pack_asn1_enumerated(c):
    v = c.param("value", T.Int)
    tag = c.param("tag", T.const(some_tag(c)))
    m = int_case(c, v)
    c.returns(tlv(c, tag_ident(c, tag, 10), derint_rope(c, v, m)))
    c.raises_only(set())


@REG.contract("dpapi_ng._asn1._read_asn1_enumerated", props=["C07"], inline=True)
def read_asn1_enumerated(c):
    v = c.fresh(T.Int, "value")
    tag = some_tag(c)
    m = int_case(c, v)
    rest = c.fresh(T.Bytes, "rest")
    enc = tlv(c, tag_ident(c, tag, 10), derint_rope(c, v, m))
    c.param("data", T.const(SBytes(c.rope(enc, rest).rope, "memoryview")))
    c.param("tag", T.const(tag))
    c.returns((v, c.len(enc)))
    c.raises_only(set())


def _string_like(name, universal, text):
    def pack(c):
        tag = c.param("tag", T.const(some_tag(c)))
        if text:
            v = c.param("value", T.Str)
            content = c.I.encode(v, "utf-8")
        else:
            v = c.param("b_data", T.Bytes)
            content = v
        c.returns(tlv(c, tag_ident(c, tag, universal), content))
        c.raises_only(set())

    def read(c):
        tag = some_tag(c)
        rest = c.fresh(T.Bytes, "rest")
        if text:
            v = c.fresh(T.Str, "value")
            content = c.I.encode(v, "utf-8")
        else:
            v = c.fresh(T.Bytes, "value")
            content = v
        enc = tlv(c, tag_ident(c, tag, universal), content)
        c.param("data", T.const(SBytes(c.rope(enc, rest).rope, "memoryview")))
        c.param("tag", T.const(tag))
        c.returns((v, c.len(enc)))
        c.raises_only(set())

    REG.contract(f"dpapi_ng._asn1._pack_asn1_{name}", props=["C07"], inline=True)(pack)
    REG.contract(f"dpapi_ng._asn1._read_asn1_{name}", props=["C07"], inline=True)(read)


_string_like("octet_string", 4, False)
_string_like("utf8_string", 12, True)
_string_like("generalized_time", 24, True)


def _constructed(name, universal):
    def read(c):
        tag = some_tag(c)
        rest = c.fresh(T.Bytes, "rest")
        content = c.fresh(T.Bytes, "content")
        ident = tag_ident(c, tag, universal, True)
        enc = tlv(c, ident, content)
        c.param("data", T.const(SBytes(c.rope(enc, rest).rope, "memoryview")))
        c.param("tag", T.const(tag))
        c.returns((content, c.len(enc)))
        c.raises_only(set())

    REG.contract(f"dpapi_ng._asn1._read_asn1_{name}", props=["C07"], inline=True)(read)


_constructed("sequence", 16)
_constructed("set", 17)


# ================================================================================================ base-128 numbers, OBJECT IDENTIFIER (X.690 8.19)
@REG.contract("dpapi_ng._asn1._pack_asn1_octet_number", props=["C07"], inline=True)
def pack_octet_number(c):
    num = c.param("num", T.int(1, 2**63 - 1))  # used for tag numbers >= 31
    d = b128_case(c, num)
    c.returns(b128_rope(c, num, d))
    c.raises_only(set())
    c.loop(0, unroll=MAX_B128 + 1)


@REG.contract("dpapi_ng._asn1._unpack_asn1_octet_number", props=["C07"], inline=True)
def unpack_octet_number(c):
    num = c.fresh(T.int(0, 2**63 - 1), "num")
    d = b128_case(c, num)
    rest = c.fresh(T.Bytes, "rest")
    c.param("data", T.const(SBytes(c.rope(b128_rope(c, num, d), rest).rope, "memoryview")))
    c.returns((num, d))
    c.raises_only(set())


from pyvc.smt import Str, str_lit  # noqa: E402
from pyvc.values import STRCAT, SStr  # noqa: E402

STR_OF_INT = z3.Function("STR_OF_INT", z3.IntSort(), Str)  # canonical decimal representation (str(n))


def dotted(arcs):
    t = STR_OF_INT(Z(arcs[0]))
    for a in arcs[1:]:
        t = STRCAT(STRCAT(t, str_lit(".")), STR_OF_INT(Z(a)))
    return SStr(t)


OID_EXTRA_ARCS = bound(3, 4)
OID_ARC_DIGITS = bound(3, 5)


def oid_fresh(c):
    """A valid object identifier: first arc 0..2, second arc 0..39, then 0..OID_EXTRA_ARCS arcs; returns (arcs, content
    rope). Case split on the base-128 length of every sub-identifier."""
    a0 = c.fresh(T.int(0, 2), "arc0")
    a1 = c.fresh(T.int(0, 39), "arc1")
    if c.ctx.branch(z3.Bool("one_long_arc")):
        extra = [c.fresh(T.int(0, 2**63 - 1), "arc2")]
        digs = [b128_case(c, extra[0], "arc2_digits")]
    else:
        n = c.ctx.choose(OID_EXTRA_ARCS + 1, "n_arcs")
        extra = [c.fresh(T.int(0, 128**OID_ARC_DIGITS - 1), f"arc{i + 2}") for i in range(n)]
        digs = [b128_case(c, x, f"arc{i + 2}_digits", OID_ARC_DIGITS) for i, x in enumerate(extra)]
    first = 40 * Z(a0) + Z(a1)
    content = c.rope(c.le(first, 1), *[b128_rope(c, x, d) for x, d in zip(extra, digs)])
    return [a0, a1] + extra, content


@REG.contract("dpapi_ng._asn1._encode_object_identifier", props=["C07"], inline=True)
def encode_oid(c):
    arcs, content = oid_fresh(c)
    c.param("oid", T.const(dotted(arcs)))
    c.returns(content)
    c.raises_only(set())
    c.loop(1, unroll=MAX_B128 + 1)


OIDC = z3.Function("OIDCONTENT", Str, Bytes)  # content octets of the OBJECT IDENTIFIER with this dotted text


@REG.contract("dpapi_ng._asn1._pack_asn1_object_identifier", props=["C07"])
def pack_oid(c):
    if not c.verifying:
        # callers with symbolic OID text (C06): the content octets are the opaque value OIDCONTENT(text); literal OIDs
        # are simply executed
        v = c.param("value")
        if isinstance(v, str) or c.param("tag") is not None:
            c.inline_instead()
        t = OIDC(v.term)
        c.assume(z3.And(blen(t) >= 1, blen(t) <= 2**32))
        c.returns(tlv(c, c.rope(b"\x06"), SBytes(R.Rope([R.full_atom(t)]))))
        c.raises_only(set())
        return
    arcs, content = oid_fresh(c)
    c.param("value", T.const(dotted(arcs)))
    tag = c.param("tag", T.const(some_tag(c)))
    c.returns(tlv(c, tag_ident(c, tag, 6), content))
    c.raises_only(set())
    c.loop(1, target="dpapi_ng._asn1._encode_object_identifier", unroll=MAX_B128 + 1)


@REG.contract("dpapi_ng._asn1._read_asn1_object_identifier", props=["C07"])
def read_oid(c):
    if not c.verifying:
        # inverse of the summary above: TLV(06, OIDCONTENT(text)) reads back as text
        data = c.param("data")
        segs = c.I.rope_of(data).segs
        if c.param("tag") is None and c.param("header") is None and opaque(c.I.rope_of(data)):
            return OPAQUE_SUMMARY["oid"](c, data)
        if c.param("tag") is not None or c.param("header") is not None or len(segs) < 3 or not (isinstance(segs[0], R.Lit) and segs[0].data == b"\x06") \
                or not isinstance(segs[1], R.Atom) or not isinstance(segs[2], R.Atom):
            c.inline_instead()
        a = segs[2]
        if not (a.is_full() and z3.is_app(a.term) and a.term.decl().eq(OIDC)):
            c.inline_instead()
        c.returns((SStr(a.term.arg(0)), 1 + blen(segs[1].term) + blen(a.term)))
        c.raises_only(set())
        return
    arcs, content = oid_fresh(c)
    tag = some_tag(c)
    rest = c.fresh(T.Bytes, "rest")
    enc = tlv(c, tag_ident(c, tag, 6), content)
    c.param("data", T.const(SBytes(c.rope(enc, rest).rope, "memoryview")))
    c.param("tag", T.const(tag))
    c.returns((dotted(arcs), c.len(enc)))
    c.raises_only(set())


# ================================================================================================ ASN1Reader: exact consumption, nesting, concatenation
def reader_obj(c, rope_value):
    v = SBytes(c.I.rope_of(rope_value), "memoryview")
    return SObj(cls_(c, "ASN1Reader"), {"_data": v, "_view": v})


def _value_case(c, prefix):
    """one DER value of a type the reader supports: (method name, extra args, expected result, TLV rope)"""
    kind = c.ctx.choose(6, prefix + ".kind")
    tag = some_tag(c, prefix + ".tag", few=True)
    if kind == 0:
        v = c.fresh(T.Int, prefix + ".int")
        m = int_case(c, v, prefix + ".octets", 3)  # the typed decoders are proved for all sizes; here only framing matters
        return "read_integer", tag, v, tlv(c, tag_ident(c, tag, 2), derint_rope(c, v, m))
    if kind == 1:
        v = c.fresh(T.Bytes, prefix + ".octets")
        return "read_octet_string", tag, v, tlv(c, tag_ident(c, tag, 4), v)
    if kind == 2:
        v = c.fresh(T.Str, prefix + ".text")
        return "read_utf8_string", tag, v, tlv(c, tag_ident(c, tag, 12), c.I.encode(v, "utf-8"))
    if kind == 3:
        v = bool(c.ctx.branch(z3.Bool(prefix + ".bool")))
        return "read_boolean", tag, v, tlv(c, tag_ident(c, tag, 1), c.rope(b"\xff" if v else b"\x00"))
    if kind == 4:
        v = c.fresh(T.Str, prefix + ".time")
        return "read_generalized_time", tag, v, tlv(c, tag_ident(c, tag, 24), c.I.encode(v, "utf-8"))
    inner = c.fresh(T.Bytes, prefix + ".content")
    return "read_sequence", tag, inner, tlv(c, tag_ident(c, tag, 16, True), inner)


def _reader_method(method):
    def spec(c):
        """read_X returns the encoded value and leaves exactly the bytes after the TLV in the reader"""
        while True:
            name, tag, want, enc = _value_case(c, "v")
            if name == method:
                break
            raise PathEnd()
        rest = c.fresh(T.Bytes, "rest")
        rd = reader_obj(c, c.rope(enc, rest))
        c.param("self", T.const(rd))
        c.param("tag", T.const(tag))
        c.raises_only(set())
        if method == "read_sequence":
            c.ensures("returns-a-reader-over-exactly-the-content", lambda r: isinstance(r, SObj) and r.cls.name == "ASN1Reader" and c.eq(SBytes(c.I.rope_of(r.fields["_view"])), want))
        else:
            c.returns(want)
        c.post("consumes-exactly-the-encoded-bytes", lambda: c.eq(SBytes(c.I.rope_of(rd.fields["_view"])), rest))

    return spec


for _m in ("read_integer", "read_octet_string", "read_utf8_string", "read_boolean", "read_generalized_time", "read_sequence"):
    REG.contract(f"dpapi_ng._asn1.ASN1Reader.{_m}", props=["C07"], inline=True)(_reader_method(_m))


@REG.contract("dpapi_ng._asn1.ASN1Reader.read_object_identifier", props=["C07"], inline=True)
def reader_read_oid(c):
    arcs, content = oid_fresh(c)
    tag = some_tag(c)
    rest = c.fresh(T.Bytes, "rest")
    rd = reader_obj(c, c.rope(tlv(c, tag_ident(c, tag, 6), content), rest))
    c.param("self", T.const(rd))
    c.param("tag", T.const(tag))
    c.returns(dotted(arcs))
    c.raises_only(set())
    c.post("consumes-exactly-the-encoded-bytes", lambda: c.eq(SBytes(c.I.rope_of(rd.fields["_view"])), rest))


@REG.variant("dpapi_ng._asn1.ASN1Reader.read_set", "set", props=["C07"])
def reader_read_set(c):
    tag = some_tag(c)
    inner = c.fresh(T.Bytes, "content")
    rest = c.fresh(T.Bytes, "rest")
    rd = reader_obj(c, c.rope(tlv(c, tag_ident(c, tag, 17, True), inner), rest))
    c.param("self", T.const(rd))
    c.param("tag", T.const(tag))
    c.raises_only(set())
    c.ensures("returns-a-reader-over-exactly-the-content", lambda r: isinstance(r, SObj) and c.eq(SBytes(c.I.rope_of(r.fields["_view"])), inner))
    c.post("consumes-exactly-the-encoded-bytes", lambda: c.eq(SBytes(c.I.rope_of(rd.fields["_view"])), rest))


@REG.contract("dpapi_ng._asn1.ASN1Reader.peek_header", props=["C07"], inline=True)
def reader_peek(c):
    """peek_header describes the next TLV and consumes nothing; skip_value then consumes exactly that TLV"""
    name, tag, want, enc = _value_case(c, "v")
    rest = c.fresh(T.Bytes, "rest")
    whole = c.rope(enc, rest)
    rd = reader_obj(c, whole)
    c.param("self", T.const(rd))
    c.raises_only(set())

    def ok(h):
        hl = Z(h.fields["tag_length"]) + Z(h.fields["length"])
        return [hl == Z(c.len(enc)), c.eq(SBytes(c.I.rope_of(rd.fields["_view"])), whole)]

    c.ensures("header-spans-exactly-the-next-value-and-nothing-is-consumed", ok)


@REG.variant("dpapi_ng._asn1.ASN1Reader.read_integer", "concatenation", props=["C07"])
def reader_concat(c):
    """Reading the concatenation of three encoded values returns them in order and leaves nothing: composition of the
    exact-consumption contracts (values of any supported type; driven through the public reader methods)."""
    vals = [_value_case(c, f"v{i}") for i in range(2)]
    if vals[0][0] != "read_integer":
        raise PathEnd()
    rd = reader_obj(c, c.rope(*[e for _, _, _, e in vals]))
    c.param("self", T.const(rd))
    c.param("tag", T.const(vals[0][1]))
    c.returns(vals[0][2])
    c.raises_only(set())

    def rest_reads_back():
        name, tag, want, enc = vals[1]
        m = c.I.getattr(rd, name)
        got = c.I.call_value(m, [], {"tag": tag})
        if name == "read_sequence":
            ok = c.eq(SBytes(c.I.rope_of(got.fields["_view"])), want)
        else:
            ok = c.eq(got, want)
        return [ok, c.Not(c.I.truth(rd))]  # bool(reader) is False: nothing left over

    c.post("second-value-follows-and-nothing-is-left", rest_reads_back)


# ================================================================================================ ASN1Writer: nesting
@REG.contract("dpapi_ng._asn1.ASN1Writer.__exit__", props=["C07"], inline=True)
def writer_exit(c):
    """Closing a nested writer appends TLV(tag, everything written into it) to its parent - to any depth, because the
    same contract applies to the parent when it is closed."""
    tag = some_tag(c, allow_none=False)
    before = c.fresh(T.bytes(kind="bytearray"), "parent_data")
    inner = c.fresh(T.bytes(kind="bytearray"), "child_data")
    parent = SObj(cls_(c, "ASN1Writer"), {"_data": before, "_tag": None, "_parent": None})
    child = SObj(cls_(c, "ASN1Writer"), {"_data": inner, "_tag": tag, "_parent": parent})
    old = SBytes(R.Rope(before.rope.segs))
    old_inner = SBytes(R.Rope(inner.rope.segs))
    c.param("self", T.const(child))
    c.raises_only(set())
    c.post("parent-gets-the-tlv-of-the-child", lambda: c.eq(parent.fields["_data"], c.rope(old, tlv(c, tag_ident(c, tag, 0), old_inner))))


@REG.contract("dpapi_ng._asn1.ASN1Writer.write_integer", props=["C07"], inline=True)
def writer_write_integer(c):
    v = c.param("value", T.Int)
    tag = c.param("tag", T.const(some_tag(c, few=True)))
    m = int_case(c, v, max_octets=3)
    before = c.fresh(T.bytes(kind="bytearray"), "data")
    w = SObj(cls_(c, "ASN1Writer"), {"_data": before, "_tag": None, "_parent": None})
    old = SBytes(R.Rope(before.rope.segs))
    c.param("self", T.const(w))
    c.raises_only(set())
    c.post("appends-exactly-the-tlv", lambda: c.eq(w.fields["_data"], c.rope(old, tlv(c, tag_ident(c, tag, 2), derint_rope(c, v, m)))))


@REG.contract("dpapi_ng._asn1.ASN1Writer.push_sequence", props=["C07"], inline=True)
def writer_push_sequence(c):
    tag = c.param("tag", T.const(some_tag(c)))
    w = SObj(cls_(c, "ASN1Writer"), {"_data": c.fresh(T.bytes(kind="bytearray"), "data"), "_tag": None, "_parent": None})
    c.param("self", T.const(w))
    c.raises_only(set())

    def ok(r):
        want_tag = tag if tag is not None else tag_obj(c, 0, 16, True)
        return [r.fields["_parent"] is w, c.eq(r.fields["_tag"], want_tag), Z(c.len(r.fields["_data"])) == 0]

    c.ensures("child-writer-with-the-sequence-tag", ok)


# ------------------------------------------------------------------------------------------------ the remaining one-line wrappers
def _writer_method(method):
    def spec(c):
        """write_X appends exactly the DER TLV of the value to the writer's buffer"""
        name, tag, value, enc = _value_case(c, "v")
        if name != "read_" + method[len("write_"):]:
            raise PathEnd()
        before = c.fresh(T.bytes(kind="bytearray"), "data")
        w = SObj(cls_(c, "ASN1Writer"), {"_data": before, "_tag": None, "_parent": None})
        old = SBytes(R.Rope(before.rope.segs))
        c.param("self", T.const(w))
        c.param("value", T.const(value))
        c.param("tag", T.const(tag))
        c.raises_only(set())
        c.post("appends-exactly-the-tlv", lambda: c.eq(w.fields["_data"], c.rope(old, enc)))

    return spec


for _m in ("write_boolean", "write_generalized_time", "write_octet_string", "write_utf8_string"):
    REG.contract(f"dpapi_ng._asn1.ASN1Writer.{_m}", props=["C07"], inline=True)(_writer_method(_m))


def _enum_case(c):
    v = c.fresh(T.Int, "enum_value")
    m = int_case(c, v, "enum_octets", 3)
    tag = some_tag(c, "enum_tag", few=True)
    return v, tag, tlv(c, tag_ident(c, tag, 10), derint_rope(c, v, m))


@REG.contract("dpapi_ng._asn1.ASN1Writer.write_enumerated", props=["C07"], inline=True)
def writer_write_enumerated(c):
    v, tag, enc = _enum_case(c)
    before = c.fresh(T.bytes(kind="bytearray"), "data")
    w = SObj(cls_(c, "ASN1Writer"), {"_data": before, "_tag": None, "_parent": None})
    old = SBytes(R.Rope(before.rope.segs))
    c.param("self", T.const(w))
    c.param("value", T.const(v))
    c.param("tag", T.const(tag))
    c.raises_only(set())
    c.post("appends-exactly-the-tlv", lambda: c.eq(w.fields["_data"], c.rope(old, enc)))


@REG.contract("dpapi_ng._asn1.ASN1Reader.read_enumerated", props=["C07"], inline=True)
def reader_read_enumerated(c):
    from pyvc.values import ClassRef

    v, tag, enc = _enum_case(c)
    c.assume(z3.And(Z(v) >= 0, Z(v) <= 3))  # the members of the enumeration used here (TagClass)
    rest = c.fresh(T.Bytes, "rest")
    rd = reader_obj(c, c.rope(enc, rest))
    c.param("self", T.const(rd))
    c.param("enum_type", T.const(ClassRef(cls_(c, "TagClass"))))
    c.param("tag", T.const(tag))
    c.raises_only(set())
    c.ensures("returns-the-member-for-the-encoded-value", lambda r: [isinstance(r, SEnum) and r.cls.name == "TagClass", Z(c.I.as_int(r)) == Z(v)])
    c.post("consumes-exactly-the-encoded-bytes", lambda: c.eq(SBytes(c.I.rope_of(rd.fields["_view"])), rest))


@REG.contract("dpapi_ng._asn1.ASN1Reader.skip_value", props=["C07"], inline=True)
def reader_skip_value(c):
    """skip_value(peek_header()) leaves exactly the bytes after the next TLV"""
    name, tag, want, enc = _value_case(c, "v")
    rest = c.fresh(T.Bytes, "rest")
    rd = reader_obj(c, c.rope(enc, rest))
    c.param("self", T.const(rd))
    hdr = c.I.call_repo(c.I.P.find_func("dpapi_ng._asn1.ASN1Reader.peek_header"), [rd], {})
    c.param("header", T.const(hdr))
    c.raises_only(set())
    c.post("skips-exactly-the-encoded-bytes", lambda: c.eq(SBytes(c.I.rope_of(rd.fields["_view"])), rest))
