"""Sidecar contracts for jborean93/dpapi-ng (DESIGN 3). Nothing here is part of /repo.

REG is the registry the engine reads; each module registers contracts, loop annotations, assumed
external contracts and axioms on import.
"""
from pyvc.contracts import Registry

REG = Registry()

from . import externs  # noqa: E402,F401
from . import externs_crypto  # noqa: E402,F401
from . import spec  # noqa: E402,F401
from . import c_gkdi  # noqa: E402,F401
from . import c_client  # noqa: E402,F401
from . import c_cache  # noqa: E402,F401
from . import c_dns  # noqa: E402,F401
from . import c_asn1  # noqa: E402,F401
from . import c_codecs  # noqa: E402,F401
from . import c_sd  # noqa: E402,F401
from . import c_cms  # noqa: E402,F401
from . import c_kek  # noqa: E402,F401
from . import c_api  # noqa: E402,F401
from . import c_connect  # noqa: E402,F401
from . import c_untrusted  # noqa: E402,F401
from . import c_rpc  # noqa: E402,F401
from . import c_epm  # noqa: E402,F401
from . import c_rpcclient  # noqa: E402,F401
