"""Contracts for the endpoint mapper codecs (C12, C18): floors, towers, ept_map request and reply."""
import z3

from pyvc import rope as R
from pyvc.contracts import T
from pyvc.smt import Z, blen, fresh_int
from pyvc.values import PathEnd, SBytes, SEnum, SList, SObj, SUUID

from . import REG
from .c_codecs import class_param
from .c_rpc import U8, U16, U32, cls, enum_val

from pyvc.config import bound

# Bounded stand-in limits for the functional (round-trip) part: list lengths only; every scalar and byte length is
# symbolic. quick / thorough tier. Termination and cost of the decoders are proved without these bounds.
MAX_FLOORS = bound(2, 3)  # floors in the tower of an ept_map request
RES_TOWERS = bound(2, 2)  # towers in an ept_map reply ...
RES_FLOORS = bound(1, 2)  # ... and floors in each of them

KNOWN = {"TCPFloor": 7, "IPFloor": 9, "RPCConnectionOrientedFloor": 11, "UUIDFloor": 13}


def floor_rope(c, proto, lhs, rhs):
    # C706 appendix L: lhs byte count (protocol id + data) u16, protocol id, lhs data, rhs byte count u16, rhs data
    return c.rope(c.le(Z(c.len(lhs)) + 1, 2), c.le(proto, 1), lhs, c.le(c.len(rhs), 2), rhs)


def floor_fresh(c, prefix, kinds=(0, 1, 2, 3, 4)):
    """A floor of one of the four known protocols or an unknown one: (object, rope, lhs bytes, rhs bytes)"""
    kind = kinds[c.ctx.choose(len(kinds), prefix + ".kind")]
    E = b""
    if kind == 0:
        port = c.fresh(U16, prefix + ".port")
        lhs, rhs = c.rope(), c.rope(c.be(port, 2))
        obj = SObj(cls(c, "TCPFloor"), {"protocol": enum_val(c, "FloorProtocol", 7, "TCP"), "lhs": SBytes(R.Rope()), "rhs": SBytes(R.Rope()), "port": port})
        return obj, floor_rope(c, 7, lhs, rhs), lhs, rhs
    if kind == 1:
        addr = c.fresh(U32, prefix + ".addr")
        lhs, rhs = c.rope(), c.rope(c.be(addr, 4))
        obj = SObj(cls(c, "IPFloor"), {"protocol": enum_val(c, "FloorProtocol", 9, "IP"), "lhs": SBytes(R.Rope()), "rhs": SBytes(R.Rope()), "addr": addr})
        return obj, floor_rope(c, 9, lhs, rhs), lhs, rhs
    if kind == 2:
        vm = c.fresh(U16, prefix + ".version_minor")
        lhs, rhs = c.rope(), c.rope(c.le(vm, 2))
        obj = SObj(cls(c, "RPCConnectionOrientedFloor"), {"protocol": enum_val(c, "FloorProtocol", 11, "RPC_CONNECTION_ORIENTED"), "lhs": SBytes(R.Rope()), "rhs": SBytes(R.Rope()), "version_minor": vm})
        return obj, floor_rope(c, 11, lhs, rhs), lhs, rhs
    if kind == 3:
        u, v, vm = c.fresh(T.UUID, prefix + ".uuid"), c.fresh(U16, prefix + ".version"), c.fresh(U16, prefix + ".version_minor")
        lhs, rhs = c.rope(u, c.le(v, 2)), c.rope(c.le(vm, 2))
        obj = SObj(cls(c, "UUIDFloor"), {"protocol": enum_val(c, "FloorProtocol", 13, "UUID_ID"), "lhs": SBytes(R.Rope()), "rhs": SBytes(R.Rope()), "uuid": u, "version": v, "version_minor": vm})
        return obj, floor_rope(c, 13, lhs, rhs), lhs, rhs
    proto = c.fresh(U8, prefix + ".protocol")
    c.assume(z3.And(*[proto != k for k in KNOWN.values()]))  # any protocol identifier that has no typed floor, listed or unknown
    lhs = c.fresh(T.bytes(max_len=0xFFFE), prefix + ".lhs")
    rhs = c.fresh(T.bytes(max_len=0xFFFF), prefix + ".rhs")
    obj = SObj(cls(c, "Floor"), {"protocol": enum_val(c, "FloorProtocol", proto), "lhs": lhs, "rhs": rhs})
    return obj, floor_rope(c, proto, lhs, rhs), lhs, rhs


def floor_eq(c, got, want, lhs, rhs):
    """decoded floor == encoded floor: same class, same declared fields; known floors mirror their raw lhs/rhs"""
    if not isinstance(got, SObj) or got.cls.ref != want.cls.ref:
        return False
    conj = []
    for k, v in want.fields.items():
        if want.cls.name != "Floor" and k == "lhs":
            conj.append(c.eq(got.fields[k], lhs))
        elif want.cls.name != "Floor" and k == "rhs":
            conj.append(c.eq(got.fields[k], rhs))
        else:
            conj.append(c.eq(got.fields[k], v))
    return c.And(*conj)


@REG.contract("dpapi_ng._epm.Floor.unpack", props=["C12", "C18"], inline=True)
def floor_unpack(c):
    class_param(c, "Floor")
    obj, rope, lhs, rhs = floor_fresh(c, "f")
    c.param("data", T.const(c.rope(rope, c.fresh(T.Bytes, "rest"))))
    c.ensures("decodes-the-encoded-floor", lambda r: floor_eq(c, r, obj, lhs, rhs))
    c.raises_only(set())


def _floor_pack(cls_name, kind):
    def spec(c):
        obj, rope, lhs, rhs = floor_fresh(c, "self", kinds=(kind,))
        c.param("self", T.const(obj))
        c.returns(rope)
        c.raises_only(set())

    return spec


for _k, _n in enumerate(["TCPFloor", "IPFloor", "RPCConnectionOrientedFloor", "UUIDFloor", "Floor"]):
    REG.contract(f"dpapi_ng._epm.{_n}.pack", props=["C12"], inline=True)(_floor_pack(_n, _k))


# ------------------------------------------------------------------------------------------------ towers
def tower_fresh(c, prefix, max_floors=MAX_FLOORS):
    n = c.ctx.choose(max_floors + 1, prefix + ".n_floors")
    floors, ropes, raws = [], [], []
    for i in range(n):
        o, r, lhs, rhs = floor_fresh(c, f"{prefix}.floor{i}")
        floors.append(o)
        ropes.append(r)
        raws.append((lhs, rhs))
    octets = c.rope(c.le(n, 2), *ropes)  # floor count u16, floors
    return floors, octets, raws


def tower_eq(c, got, floors, raws):
    if not isinstance(got, list) or len(got) != len(floors):
        return False
    return c.And(*[floor_eq(c, g, w, l, r) for g, w, (l, r) in zip(got, floors, raws)])


def handle_fresh(c, prefix):
    if c.ctx.branch(z3.Bool(prefix + "_absent")):
        return None, c.rope(b"\x00" * 20)
    attr, u = c.fresh(U32, prefix + ".attributes"), c.fresh(T.UUID, prefix + ".uuid")
    # an all-zero context handle is the null handle: a present handle is not all zero
    c.assume(z3.Not(Z(c.eq(c.rope(c.le(attr, 4), u), c.rope(b"\x00" * 20)))))
    return (attr, u), c.rope(c.le(attr, 4), u)


def obj_fresh(c, prefix):
    if c.ctx.branch(z3.Bool(prefix + "_absent")):
        return None, c.rope(b"\x00" * 16)
    u = c.fresh(T.UUID, prefix)
    c.assume(z3.Not(Z(c.eq(c.rope(u), c.rope(b"\x00" * 16)))))
    return u, c.rope(u)


def eptmap_rope(c, obj_rope, octets, handle_rope, max_towers):
    n = c.len(octets)
    pad = c.mod(-(Z(n) + 4), 8)
    # [in] uuid_p_t object (referent 1 + uuid) ; twr_p_t map_tower (referent 2, conformant max count u64, tower_length u32, octets, pad to 8) ;
    # [in,out] ept_lookup_handle_t (20 bytes) ; unsigned32 max_towers            (NDR64)
    return c.rope(b"\x01\x00\x00\x00\x00\x00\x00\x00", obj_rope, b"\x02\x00\x00\x00\x00\x00\x00\x00", c.le(n, 8), c.le(n, 4), octets, c.zeros(pad),
                  handle_rope, c.le(max_towers, 4))


@REG.contract("dpapi_ng._epm.EptMap.pack", props=["C12", "C17"], inline=True)
def eptmap_pack(c):
    o, o_rope = obj_fresh(c, "obj")
    floors, octets, _ = tower_fresh(c, "tower")
    h, h_rope = handle_fresh(c, "handle")
    mt = c.fresh(U32, "max_towers")
    c.param("self", T.const(SObj(cls(c, "EptMap"), {"opnum": 3, "obj": o, "tower": floors, "entry_handle": h, "max_towers": mt})))
    c.returns(eptmap_rope(c, o_rope, octets, h_rope, mt))
    c.raises_only(set())


@REG.contract("dpapi_ng._epm.EptMap.unpack", props=["C12"], inline=True)
def eptmap_unpack(c):
    class_param(c, "EptMap")
    o, o_rope = obj_fresh(c, "obj")
    floors, octets, raws = tower_fresh(c, "tower")
    h, h_rope = handle_fresh(c, "handle")
    mt = c.fresh(U32, "max_towers")
    c.param("data", T.const(eptmap_rope(c, o_rope, octets, h_rope, mt)))
    c.ensures("decodes-the-encoded-request", lambda r: [c.eq(r.fields["obj"], o), tower_eq(c, r.fields["tower"], floors, raws), c.eq(r.fields["entry_handle"], h), c.eq(r.fields["max_towers"], mt)])
    c.raises_only(set())


def eptmap_result_rope(c, handle_rope, tower_octets: list, status):
    n = len(tower_octets)
    parts = [handle_rope, c.le(n, 4), c.le(n, 8), b"\x00" * 8, c.le(n, 8)]
    # ept_map [out]: entry_handle, num_towers u32, conformant varying array of tower pointers: max count u64, offset u64 (0), actual count u64,
    # referent ids (non null), then each tower as a conformant structure aligned to 8: max count u64, tower_length u32, octets ; status u32 aligned to 4
    for i in range(n):
        parts.append(c.le(i + 3, 8))
    for i, octets in enumerate(tower_octets):
        ln = c.len(octets)
        parts += [c.le(ln, 8), c.le(ln, 4), octets]
        if i + 1 < n:
            parts.append(c.zeros(c.mod(-(Z(ln) + 4), 8)))
        else:
            parts.append(c.zeros(c.mod(-Z(ln), 4)))
    parts.append(c.le(status, 4))
    return c.rope(*parts)


def towers_fresh(c, max_towers, max_floors):
    n = c.ctx.choose(max_towers + 1, "n_towers")
    towers, octets, raws = [], [], []
    for i in range(n):
        f, o, r = tower_fresh(c, f"tower{i}", max_floors)
        towers.append(f)
        octets.append(o)
        raws.append(r)
    return towers, octets, raws


@REG.contract("dpapi_ng._epm.EptMapResult.pack", props=["C12"], inline=True)
def eptmapresult_pack(c):
    h, h_rope = handle_fresh(c, "handle")
    towers, octets, _ = towers_fresh(c, RES_TOWERS, RES_FLOORS)
    status = c.fresh(U32, "status")
    c.param("self", T.const(SObj(cls(c, "EptMapResult"), {"entry_handle": h, "towers": towers, "status": status})))
    c.returns(eptmap_result_rope(c, h_rope, octets, status))
    c.raises_only(set())


@REG.contract("dpapi_ng._epm.EptMapResult.unpack", props=["C12", "C18"], inline=True)
def eptmapresult_unpack(c):
    class_param(c, "EptMapResult")
    h, h_rope = handle_fresh(c, "handle")
    towers, octets, raws = towers_fresh(c, RES_TOWERS, RES_FLOORS)
    status = c.fresh(U32, "status")
    c.param("data", T.const(eptmap_result_rope(c, h_rope, octets, status)))

    def ok(r):
        got = r.fields["towers"]
        if not isinstance(got, list) or len(got) != len(towers):
            return False
        return [c.eq(r.fields["entry_handle"], h), c.eq(r.fields["status"], status)] + [tower_eq(c, g, w, rw) for g, w, rw in zip(got, towers, raws)]

    c.ensures("decodes-all-towers", ok)
    c.raises_only(set())


# ================================================================================================ work on arbitrary replies (C12, C18)
def _opaque_list(I_, cur, s):
    return SList(fresh_int("n_items"), lambda j: None)


@REG.variant("dpapi_ng._epm.EptMapResult.unpack", "arbitrary-bytes", props=["C12", "C18"])
def eptmapresult_unpack_any(c):
    """Any byte string, including one announcing absurd tower / floor counts, is decoded with work and copying
    proportional to its length. Potential argument: steps + remaining bytes never grows inside the floor loop
    (every completed floor consumes at least 3 bytes and costs at most 3 steps) and grows by at most 2 per tower,
    and the number of towers is at most len/8 (the referent array has to fit in the data)."""
    class_param(c, "EptMapResult")
    data = c.param("data", T.Bytes)
    n = Z(c.len(data))
    c.raises("Exception", when=None)
    c.raises_only({"Exception"})
    c.ghost_bound("ticks", 2 * n + 16, on_raise=2 * n + 16)
    c.ghost_bound("copied", n + 64)
    L = lambda v: Z(c.len(v))  # noqa: E731
    havoc = {"tower": _opaque_list, "towers": _opaque_list}

    def outer(s):
        e = s.at_entry
        return [
            Z(s.ticks) + L(s.view) <= Z(e.ticks) + L(e.view) + 2 * Z(s._i),
            Z(s.copied) + L(s.view) <= Z(e.copied) + L(e.view),
            L(s.view) <= L(e.view),
            8 * Z(s.tower_count) <= n,
        ]

    def inner(s):
        e = s.at_entry
        return [Z(s.ticks) + L(s.view) <= Z(e.ticks) + L(e.view), Z(s.copied) + L(s.view) <= Z(e.copied) + L(e.view), L(s.view) <= L(e.view)]

    c.loop(0, invariant=outer, havoc=havoc)
    c.loop(1, invariant=inner, havoc=havoc)


# ================================================================================================ C18: port selection
@REG.contract("dpapi_ng._client._process_ept_map_result", props=["C18", "C17"])
def process_ept_map_result(c):
    """For a well-formed reply: the TCP port of the first tower (list order, then floor order) that has a TCP floor;
    a non-zero status or no TCP floor at all is an error. (List lengths bounded, see RES_TOWERS/RES_FLOORS.)"""
    if not c.verifying:
        resp = c.param("response")
        c.raises("ValueError", when=None)
        c.raises("IndexError", when=None)
        port = c.fresh(T.int(0, 0xFFFF), "mapped_port")
        c.effect(lambda: c.ctx.event("ept_port", response=resp, port=port))
        c.returns(port)
        return
    h, h_rope = handle_fresh(c, "handle")
    towers, octets, raws = towers_fresh(c, RES_TOWERS, bound(1, 2))
    status = c.fresh(U32, "status")
    stub = eptmap_result_rope(c, h_rope, octets, status)
    resp = SObj(cls(c, "Response"), {"header": None, "sec_trailer": None, "alloc_hint": 0, "context_id": 0, "cancel_count": 0, "stub_data": stub})
    c.param("response", T.const(resp))
    first = None
    for t in towers:
        for f in t:
            if f.cls.name == "TCPFloor" and first is None:
                first = f.fields["port"]
    ok = Z(status) == 0 if first is not None else False
    c.raises("ValueError", when=c.Not(ok))
    c.raises_only({"ValueError"})
    if first is not None:
        c.returns(first)
    else:
        c.no_normal_return()


@REG.variant("dpapi_ng._epm.EptMap.unpack", "arbitrary-bytes", props=["C12"])
def eptmap_unpack_any(c):
    """The ept_map request decoder on any byte string: work and copying proportional to the length (same potential argument as
    for the reply: every completed floor consumes at least 3 bytes and costs at most 3 steps)."""
    class_param(c, "EptMap")
    data = c.param("data", T.Bytes)
    n = Z(c.len(data))
    c.raises("Exception", when=None)
    c.raises_only({"Exception"})
    c.ghost_bound("ticks", 2 * n + 16, on_raise=2 * n + 16)
    c.ghost_bound("copied", n + 64)
    L = lambda v: Z(c.len(v))  # noqa: E731

    def inner(s):
        e = s.at_entry
        return [Z(s.ticks) + L(s.view) <= Z(e.ticks) + L(e.view), Z(s.copied) + L(s.view) <= Z(e.copied) + L(e.view), L(s.view) <= L(e.view)]

    c.loop(0, invariant=inner, havoc={"tower": _opaque_list})
