"""Assumed contracts of the cryptographic primitives (cryptography package) - A-RNG, A-KW, A-GCM, A-CKDF, A-DH, A-EC."""
import z3

from pyvc import rope as R
from pyvc.smt import Bytes, Ref, Z, blen, fresh_bool, fresh_bytes, fresh_int, fresh_ref
from pyvc.values import Builtin, OutOfReach, SBytes, SRef

from . import REG

Int = z3.IntSort()
CRY = "cryptography.hazmat.primitives."
REG.extern_exceptions["cryptography.exceptions.InvalidTag"] = ["Exception", "BaseException", "object"]
REG.extern_exceptions["cryptography.hazmat.primitives.keywrap.InvalidUnwrap"] = ["Exception", "BaseException", "object"]

GCMENC = z3.Function("AESGCM_ENC", Bytes, Bytes, Bytes, Bytes)  # key, nonce, plaintext -> ciphertext || tag
GCMDEC = z3.Function("AESGCM_DEC", Bytes, Bytes, Bytes, Bytes)  # key, nonce, ciphertext || tag -> plaintext (when it verifies)
GCMOK = z3.Function("AESGCM_VERIFIES", Bytes, Bytes, Bytes, z3.BoolSort())
KW = z3.Function("AES_KW", Bytes, Bytes, Bytes)  # kek, key -> wrapped key (RFC 3394)
KWU = z3.Function("AES_KWU", Bytes, Bytes, Bytes)
KWOK = z3.Function("AES_KW_VERIFIES", Bytes, Bytes, z3.BoolSort())
CONCATKDF = z3.Function("CONCATKDF", Ref, Bytes, Bytes, Int, Bytes)  # hash, secret, otherinfo, length (SP800-56A single-step)
MODEXP = z3.Function("MODEXP", Int, Int, Int, Int)  # pow(b, e, m)
ECDH = z3.Function("ECDH_X", Ref, Int, Int, Int, Bytes)  # curve, private scalar, peer X, peer Y -> shared secret (x coordinate, fixed width)
ECPUBX = z3.Function("EC_PUB_X", Ref, Int, Int)
ECPUBY = z3.Function("EC_PUB_Y", Ref, Int, Int)

_k, _n, _p, _c, _w = z3.Consts("x!k x!n x!p x!c x!w", Bytes)
# A-GCM: decryption of an encryption under the same key and nonce verifies and returns the plaintext
REG.axiom(z3.ForAll([_k, _n, _p], z3.And(GCMOK(_k, _n, GCMENC(_k, _n, _p)), GCMDEC(_k, _n, GCMENC(_k, _n, _p)) == _p, blen(GCMENC(_k, _n, _p)) == blen(_p) + 16),
                    patterns=[GCMENC(_k, _n, _p)]), "A-GCM inverse", symbols=["AESGCM_ENC"])
# A-KW: unwrapping a wrapped key under the same kek verifies and returns the key
REG.axiom(z3.ForAll([_k, _p], z3.And(KWOK(_k, KW(_k, _p)), KWU(_k, KW(_k, _p)) == _p, blen(KW(_k, _p)) == blen(_p) + 8), patterns=[KW(_k, _p)]), "A-KW inverse", symbols=["AES_KW"])
_a, _b, _m = z3.Ints("x!a x!b x!m")
_g = z3.Int("x!g")
# A-DH: (g^a)^b = (g^b)^a mod m ; 0 <= pow(.,.,m) < m
REG.axiom(z3.ForAll([_g, _a, _b, _m], MODEXP(MODEXP(_g, _a, _m), _b, _m) == MODEXP(MODEXP(_g, _b, _m), _a, _m), patterns=[MODEXP(MODEXP(_g, _a, _m), _b, _m)]), "A-DH commutation", symbols=["MODEXP"])
REG.axiom(z3.ForAll([_g, _a, _m], z3.Implies(_m > 0, z3.And(MODEXP(_g, _a, _m) >= 0, MODEXP(_g, _a, _m) < _m)), patterns=[MODEXP(_g, _a, _m)]), "range of pow(b,e,m)", symbols=["MODEXP"])
_cv = z3.Const("x!curve", Ref)
# A-EC: ECDH(a, pub(b)) = ECDH(b, pub(a)) on one curve
REG.axiom(z3.ForAll([_cv, _a, _b], ECDH(_cv, _a, ECPUBX(_cv, _b), ECPUBY(_cv, _b)) == ECDH(_cv, _b, ECPUBX(_cv, _a), ECPUBY(_cv, _a)),
                    patterns=[ECDH(_cv, _a, ECPUBX(_cv, _b), ECPUBY(_cv, _b))]), "A-EC commutation", symbols=["ECDH_X"])


def atom(t):
    return SBytes(R.Rope([R.full_atom(t)]))


def bterm(I, v):
    return R.to_term(I.ctx, I.rope_of(v))


# ---------------------------------------------------------------------------------------------- AES-GCM
@REG.extern(CRY + "ciphers.aead.AESGCM.generate_key")
def gcm_generate_key(I, fn, args, kw):
    """A-RNG: bit_length/8 fresh bytes"""
    bits = I.as_int(args[0] if args else kw["bit_length"])
    I.ctx.prove(I.site("generate_key") + ".pre.key-size", I._or([I.eq(bits, 128), I.eq(bits, 192), I.eq(bits, 256)]))
    t = fresh_bytes("gcm_key")
    n = I.ctx.div(bits, 8)
    I.ctx.assume(blen(t) == Z(n))
    I.ctx.event("generate_key", bits=bits, term=t)
    return SBytes(R.Rope([R.full_atom(t, n if isinstance(n, int) else None)]))


@REG.extern(CRY + "ciphers.aead.AESGCM")
def gcm_new(I, fn, args, kw):
    key = args[0]
    n = I.bytes_len(key)
    if I.branch(I._not(I._or([I.eq(n, 16), I.eq(n, 24), I.eq(n, 32)]))):
        I.raise_("ValueError")
    return SRef(fresh_ref("aesgcm"), "AESGCM", {"key": key})


@REG.extern_method("AESGCM.encrypt")
def gcm_encrypt(I, ref, args, kw):
    nonce, data, aad = args[0], args[1], args[2] if len(args) > 2 else kw.get("associated_data")
    I.ctx.prove(I.site("encrypt") + ".pre.no-associated-data", aad is None)
    n = I.bytes_len(nonce)
    if I.branch(I._or([Z(n) < 8, Z(n) > 128])):
        I.raise_("ValueError")
    t = GCMENC(bterm(I, ref.attrs["key"]), bterm(I, nonce), bterm(I, data))
    I.ctx.assume(blen(t) == Z(I.bytes_len(data)) + 16)
    I.ctx.event("gcm_encrypt", key=ref.attrs["key"], nonce=nonce, data=data)
    return atom(t)


@REG.extern_method("AESGCM.decrypt")
def gcm_decrypt(I, ref, args, kw):
    nonce, data, aad = args[0], args[1], args[2] if len(args) > 2 else kw.get("associated_data")
    I.ctx.prove(I.site("decrypt") + ".pre.no-associated-data", aad is None)
    n = I.bytes_len(nonce)
    if I.branch(I._or([Z(n) < 8, Z(n) > 128])):
        I.raise_("ValueError")
    k, nn, d = bterm(I, ref.attrs["key"]), bterm(I, nonce), bterm(I, data)
    I.ctx.event("gcm_decrypt", key=ref.attrs["key"], nonce=nonce, data=data)
    if I.branch(z3.Not(GCMOK(k, nn, d))):
        I.raise_("cryptography.exceptions.InvalidTag")
    t = GCMDEC(k, nn, d)
    I.ctx.assume(z3.And(blen(t) >= 0, blen(t) == Z(I.bytes_len(data)) - 16))
    return atom(t)


# ---------------------------------------------------------------------------------------------- AES key wrap
@REG.extern(CRY + "keywrap.aes_key_wrap")
def aes_key_wrap(I, fn, args, kw):
    kek, key = args[0], args[1]
    if I.branch(I._not(I._or([I.eq(I.bytes_len(kek), 16), I.eq(I.bytes_len(kek), 24), I.eq(I.bytes_len(kek), 32)]))):
        I.raise_("ValueError")
    if I.branch(I._or([Z(I.bytes_len(key)) < 16, I.ctx.mod(I.bytes_len(key), 8) != 0])):
        I.raise_("ValueError")
    t = KW(bterm(I, kek), bterm(I, key))
    I.ctx.assume(blen(t) == Z(I.bytes_len(key)) + 8)
    I.ctx.event("key_wrap", kek=kek, key=key)
    return atom(t)


@REG.extern(CRY + "keywrap.aes_key_unwrap")
def aes_key_unwrap(I, fn, args, kw):
    kek, wrapped = args[0], args[1]
    if I.branch(I._not(I._or([I.eq(I.bytes_len(kek), 16), I.eq(I.bytes_len(kek), 24), I.eq(I.bytes_len(kek), 32)]))):
        I.raise_("ValueError")
    k, w = bterm(I, kek), bterm(I, wrapped)
    I.ctx.event("key_unwrap", kek=kek, wrapped=wrapped)
    if I.branch(z3.Not(KWOK(k, w))):
        I.raise_(CRY + "keywrap.InvalidUnwrap")
    t = KWU(k, w)
    I.ctx.assume(z3.And(blen(t) >= 16, blen(t) == Z(I.bytes_len(wrapped)) - 8))
    return atom(t)


# ---------------------------------------------------------------------------------------------- ConcatKDF
@REG.extern(CRY + "kdf.concatkdf.ConcatKDFHash")
def concatkdf_new(I, fn, args, kw):
    if len(args) > 1 or set(kw) - {"algorithm", "length", "otherinfo"}:
        I.ctx.prove(I.site("ConcatKDFHash") + ".pre.arguments", False)
    alg = args[0] if args else kw["algorithm"]
    return SRef(fresh_ref("ckdf"), "ConcatKDFHash", {"algorithm": alg, "length": kw.get("length"), "otherinfo": kw.get("otherinfo")})


@REG.extern_method("ConcatKDFHash.derive")
def concatkdf_derive(I, ref, args, kw):
    a = ref.attrs
    t = CONCATKDF(a["algorithm"].term, bterm(I, args[0]), bterm(I, a["otherinfo"]), Z(I.as_int(a["length"])))
    I.ctx.assume(blen(t) == Z(I.as_int(a["length"])))
    return atom(t)


# ---------------------------------------------------------------------------------------------- DH / ECDH
@REG.extern("pow3")
def pow3(I, fn, args, kw):
    b, e, m = (I.as_int(x) for x in args)
    if I.branch(Z(m) == 0):
        I.raise_("ValueError")
    if I.branch(Z(e) < 0):
        raise OutOfReach("pow with a negative exponent")
    if I.branch(Z(m) < 0):
        raise OutOfReach("pow with a negative modulus")
    r = MODEXP(Z(b), Z(e), Z(m))
    I.ctx.assume(z3.And(r >= 0, r < Z(m)))
    I.ctx.tick("modexp")
    return r


EC = CRY + "asymmetric.ec."
CURVES = {"SECP256R1": (z3.Const("CURVE_P256", Ref), 32), "SECP384R1": (z3.Const("CURVE_P384", Ref), 48), "SECP521R1": (z3.Const("CURVE_P521", Ref), 66)}
REG.axiom(z3.Distinct(*[c for c, _ in CURVES.values()]), "curves are distinct")


def _mk_curve(name):
    def f(I, fn, args, kw):
        return SRef(CURVES[name][0], "EllipticCurve", {"name": name, "size": CURVES[name][1]})

    return f


for _n in CURVES:
    REG.externs[EC + _n] = _mk_curve(_n)

REG.externs[EC + "ECDH"] = lambda I, fn, a, k: SRef(fresh_ref("ecdh_alg"), "ECDHAlgorithm")


@REG.extern(EC + "EllipticCurvePublicNumbers")
def ec_public_numbers(I, fn, args, kw):
    x, y, curve = args
    return SRef(fresh_ref("ecpubnum"), "ECPublicNumbers", {"x": I.as_int(x), "y": I.as_int(y), "curve": curve})


@REG.extern_method("ECPublicNumbers.public_key")
def ec_pubnum_public_key(I, ref, args, kw):
    if I.branch(fresh_bool("point_not_on_curve")):
        I.raise_("ValueError")
    return SRef(fresh_ref("ecpub"), "ECPublicKey", dict(ref.attrs))


@REG.extern(EC + "derive_private_key")
def ec_derive_private_key(I, fn, args, kw):
    d, curve = I.as_int(args[0]), args[1]
    # A-EC / A-EC-RANGE: ValueError outside (0, n); the KDF-derived scalar is in range except with negligible probability
    if I.branch(fresh_bool("scalar_out_of_range")):
        I.raise_("ValueError")
    I.ctx.tick("ec_ops")
    return SRef(fresh_ref("ecpriv"), "ECPrivateKey", {"d": d, "curve": curve})


@REG.extern_method("ECPrivateKey.exchange")
def ec_exchange(I, ref, args, kw):
    alg, pub = args
    t = ECDH(ref.attrs["curve"].term, Z(ref.attrs["d"]), Z(pub.attrs["x"]), Z(pub.attrs["y"]))
    size = ref.attrs["curve"].attrs["size"]
    I.ctx.assume(blen(t) == size)
    I.ctx.prove(I.site("exchange") + ".pre.same-curve", I.eq(ref.attrs["curve"], pub.attrs["curve"]))
    return atom(t)


@REG.extern_method("ECPrivateKey.public_key")
def ec_priv_public_key(I, ref, args, kw):
    c, d = ref.attrs["curve"], ref.attrs["d"]
    x, y = ECPUBX(c.term, Z(d)), ECPUBY(c.term, Z(d))
    I.ctx.assume(z3.And(x >= 0, y >= 0))
    return SRef(fresh_ref("ecpub"), "ECPublicKey", {"x": x, "y": y, "curve": c})


@REG.extern_method("ECPublicKey.public_numbers")
def ec_public_numbers_of(I, ref, args, kw):
    return SRef(fresh_ref("ecpubnum"), "ECPublicNumbers", dict(ref.attrs))
