"""Connection set-up (C17): create_rpc_connection / async_create_rpc_connection and the objects they build. Verified bodies; the
summaries used by the conversation contracts (c_api._connect) state the same facts as events."""
import z3

from pyvc.contracts import T
from pyvc.smt import Z, fresh_ref
from pyvc.values import Builtin, Coro, OutOfReach, SObj, SRef, SStr

from . import REG

REG.extern_exceptions.setdefault("spnego.exceptions.SpnegoError", ["Exception", "BaseException", "object"])


# ------------------------------------------------------------------------------------------------ assumed externals (A-NET, A-SPNEGO)
@REG.extern("socket.create_connection")
def _create_connection(I, fn, args, kw):
    """opens a TCP connection to (host, port) or raises OSError"""
    addr = args[0] if args else kw.get("address")
    if not (isinstance(addr, tuple) and len(addr) == 2):
        raise OutOfReach("socket.create_connection with an address that is not a (host, port) pair")
    if I.branch(z3.Bool("connect_fails!%d" % len(I.ctx.taken))):
        I.raise_("OSError")
    s = SRef(fresh_ref("sock"), "socket")
    I.ctx.event("tcp_connect", host=addr[0], port=addr[1], timeout=kw.get("timeout", args[1] if len(args) > 1 else None), transport=s)
    return s


@REG.extern_method("socket.settimeout")
def _settimeout(I, ref, args, kw):
    I.ctx.event("settimeout", sock=ref, value=args[0] if args else None)
    return None


@REG.extern("asyncio.open_connection")
def _open_connection(I, fn, args, kw):
    host = args[0] if args else kw.get("host")
    port = args[1] if len(args) > 1 else kw.get("port")
    if I.branch(z3.Bool("connect_fails!%d" % len(I.ctx.taken))):
        I.raise_("OSError")
    rd, wr = SRef(fresh_ref("reader"), "StreamReader"), SRef(fresh_ref("writer"), "StreamWriter")
    I.ctx.event("tcp_connect", host=host, port=port, timeout=None, transport=(rd, wr))
    return Coro((rd, wr))


@REG.extern("asyncio.wait_for")
def _wait_for(I, fn, args, kw):
    """awaits the awaitable, or raises TimeoutError after the timeout"""
    fut = args[0]
    if I.branch(z3.Bool("wait_for_times_out!%d" % len(I.ctx.taken))):
        I.raise_("asyncio.TimeoutError")
    I.ctx.event("wait_for", timeout=args[1] if len(args) > 1 else kw.get("timeout"))
    return fut if isinstance(fut, Coro) else Coro(fut)


@REG.extern("spnego.client")
def _spnego_client(I, fn, args, kw):
    """A-SPNEGO: builds the security context for (username, password) towards service/hostname with the given protocol and flags"""
    if I.branch(z3.Bool("spnego_client_fails!%d" % len(I.ctx.taken))):
        I.raise_("spnego.exceptions.SpnegoError")
    ref = SRef(fresh_ref("spnego_ctx"), "SpnegoContext")
    I.ctx.event("spnego_client", username=args[0] if args else kw.get("username"), password=args[1] if len(args) > 1 else kw.get("password"),
                hostname=kw.get("hostname"), service=kw.get("service"), protocol=kw.get("protocol"), context_req=kw.get("context_req"), ctx=ref)
    return ref


# ------------------------------------------------------------------------------------------------ the verified set-up functions
PROVIDERS = {"negotiate": "RPC_C_AUTHN_GSS_NEGOTIATE", "ntlm": "RPC_C_AUTHN_WINNT", "kerberos": "RPC_C_AUTHN_GSS_KERBEROS"}


def _setup(flavour):
    def spec(c):
        from .c_api import _connect

        if not c.verifying:
            return _connect(c, flavour)
        I = c.I
        server = c.param("server", T.Str)
        port = c.param("port", T.int(0, 65535))
        timeout = c.param("connection_timeout", T.int(0, 86400))
        user, pw = c.param("username", T.opt(T.Str)), c.param("password", T.opt(T.Str))
        k = c.ctx.choose(len(PROVIDERS) + 3, "auth_protocol")
        proto = list(PROVIDERS)[k] if k < len(PROVIDERS) else [None, "", c.fresh(T.Str, "other_protocol")][k - len(PROVIDERS)]
        if isinstance(proto, SStr):
            # any other, non-empty name: the context is created and the provider lookup then fails (KeyError); no client is returned
            from pyvc.interp import STRLEN
            from pyvc.smt import str_lit

            c.assume(z3.And(STRLEN(proto.term) != 0, *[proto.term != str_lit(n) for n in PROVIDERS]))
        c.param("auth_protocol", T.const(proto))
        c.raises("OSError", when=None)
        c.raises("spnego.exceptions.SpnegoError", when=None)
        c.raises("KeyError", when=None, label="unknown-protocol-name")
        errs = {"OSError", "spnego.exceptions.SpnegoError", "KeyError"}
        if flavour == "async":
            c.raises("asyncio.TimeoutError", when=None)
            errs.add("asyncio.TimeoutError")
        c.raises_only(errs)
        c.replay(skip="opens a network connection")

        def ok(r):
            ev = lambda kind: [d for kk, d in c.ctx.trace if kk == kind]  # noqa: E731
            tcp, sp = ev("tcp_connect"), ev("spnego_client")
            if not isinstance(r, SObj) or r.cls.name != ("SyncRpcClient" if flavour == "sync" else "AsyncRpcClient") or len(tcp) != 1:
                return False
            conj = [c.eq(tcp[0]["host"], server), c.eq(tcp[0]["port"], port), r.fields["_sign_header"] is False]
            if flavour == "sync":
                conj += [r.fields["_sock"] is tcp[0]["transport"], c.eq(tcp[0]["timeout"], timeout)]
                st = ev("settimeout")
                conj += [len(st) == 1 and st[0]["sock"] is tcp[0]["transport"] and st[0]["value"] is None]  # blocking mode for the conversation
            else:
                wf = ev("wait_for")
                conj += [r.fields["_reader"] is tcp[0]["transport"][0], r.fields["_writer"] is tcp[0]["transport"][1], len(wf) == 1 and c.eq(wf[0]["timeout"], timeout)]
            auth = r.fields["_auth"]
            if isinstance(proto, SStr):
                return False  # an unknown protocol name never yields a client
            if proto is None or proto == "":
                return conj + [auth is None, len(sp) == 0]  # no authentication requested: no security context is built
            if not isinstance(auth, SObj) or auth.cls.name != "AuthenticationProvider" or len(sp) != 1:
                return False
            d = sp[0]
            flags = d["context_req"]
            conj += [auth.fields["ctx"] is d["ctx"], c.eq(d["username"], user), c.eq(d["password"], pw), c.eq(d["hostname"], server), c.eq(d["service"], "host"),
                     c.eq(d["protocol"], proto), isinstance(flags, Builtin) and flags.name == "spnego.ContextReq.(dce_style|default)",
                     c.eq(auth.fields["_header_length"], 0)]
            if isinstance(proto, str):
                conj += [auth.fields["provider"].name == PROVIDERS[proto]]
            return conj

        c.ensures("connects-to-the-given-endpoint-with-a-context-for-the-given-credentials", ok)

    return spec


REG.contract("dpapi_ng._rpc._client.create_rpc_connection", props=["C17"], note="verified; its summary (events) is what the conversation contracts use")(_setup("sync"))
REG.contract("dpapi_ng._rpc._client.async_create_rpc_connection", props=["C17"], note="verified; its summary (events) is what the conversation contracts use")(_setup("async"))


# ------------------------------------------------------------------------------------------------ close()
@REG.extern_method("socket.shutdown")
def _shutdown(I, ref, args, kw):
    """may fail with OSError when the peer already closed the connection"""
    I.ctx.event("sock_shutdown", sock=ref, how=args[0] if args else None)
    if I.branch(z3.Bool("shutdown_fails!%d" % len(I.ctx.taken))):
        I.raise_("OSError")
    return None


@REG.extern_method("socket.close")
def _sock_close(I, ref, args, kw):
    I.ctx.event("transport_close", transport=ref)
    return None


@REG.extern_method("StreamWriter.close")
def _writer_close(I, ref, args, kw):
    I.ctx.event("transport_close", transport=ref)
    return None


@REG.extern_method("StreamWriter.wait_closed")
def _wait_closed(I, ref, args, kw):
    I.ctx.event("wait_closed", transport=ref)
    return Coro(None)


def _close(flavour):
    def spec(c):
        from .c_rpcclient import async_client, sync_client

        if not c.verifying:
            cl = c.param("self")
            c.raises_only(set())
            c.effect(lambda: c.ctx.event("close", client=cl))
            c.returns(None)
            return
        self_ = c.param("self", sync_client() if flavour == "sync" else async_client())
        c.raises_only(set())  # a failing shutdown (peer already gone) must not keep the transport open or escape

        def ok(r):
            cl = [d for k, d in c.ctx.trace if k == "transport_close"]
            want = self_.fields["_sock"] if flavour == "sync" else self_.fields["_writer"]
            conj = [len(cl) == 1 and cl[0]["transport"] is want]
            if flavour == "sync":
                sh = [d for k, d in c.ctx.trace if k == "sock_shutdown"]
                conj.append(len(sh) == 1 and sh[0]["sock"] is want and sh[0]["how"] == 2)  # SHUT_RDWR
            else:
                wc = [d for k, d in c.ctx.trace if k == "wait_closed"]
                conj.append(len(wc) == 1 and wc[0]["transport"] is want)
            return conj

        c.ensures("the-transport-is-closed-exactly-once-on-every-path", ok)

    return spec


REG.contract("dpapi_ng._rpc._client.SyncRpcClient.close", props=["C17"], note="verified (try/except around shutdown); its summary is the 'close' event")(_close("sync"))
REG.contract("dpapi_ng._rpc._client.AsyncRpcClient.close", props=["C17"], note="verified; its summary is the 'close' event")(_close("async"))
