"""Contracts for dpapi_ng._rpc._auth and dpapi_ng._rpc._client (C13 framing, C16 sealing, C14 reassembly, C15 handshake)."""
import z3

from pyvc import rope as R
from pyvc.contracts import Kind, T
from pyvc.smt import Bytes, Ref, Z, blen, fresh_bool, fresh_bytes, fresh_int, fresh_ref
from pyvc.values import Builtin, OutOfReach, SBytes, SEnum, SObj, SRef

from . import REG
from .c_rpc import U8, U16, U32, cls, enum_val, header_fresh, header_rope, sectrailer_rope

IOV = "spnego.iov.BufferType."
HDRLEN = z3.Function("SPNEGO_HEADER_LEN", Ref, z3.IntSort())  # query_message_sizes().header of a context (A-SPNEGO: constant)
SEAL = z3.Function("SPNEGO_SEAL", Ref, Bytes, z3.IntSort(), Bytes)  # ctx, plaintext, sequence -> ciphertext (same length)
SIGN = z3.Function("SPNEGO_SIGN", Ref, Bytes, z3.IntSort(), Bytes)  # ctx, everything signed, sequence -> signature
UNSEAL = z3.Function("SPNEGO_UNSEAL", Ref, Bytes, Bytes, Bytes)  # ctx, ciphertext, signature -> plaintext (same length)

REG.extern_exceptions["spnego.exceptions.SpnegoError"] = ["Exception", "BaseException", "object"]


def provider_kind():
    return T.obj("AuthenticationProvider", ctx=T.ref("SpnegoContext"), provider=T.enum("SecurityProvider", ["RPC_C_AUTHN_GSS_NEGOTIATE", "RPC_C_AUTHN_WINNT", "RPC_C_AUTHN_GSS_KERBEROS"]),
                 _header_length=T.int(0, 0xFFFF))


def hdrlen(c, ctxref):
    h = HDRLEN(ctxref.term)
    c.assume(z3.And(h >= 0, h <= 0xFFFF))
    return h


# ------------------------------------------------------------------------------------------------ spnego (A-SPNEGO)
@REG.extern_method("SpnegoContext.query_message_sizes")
def _qms(I, ref, args, kw):
    h = HDRLEN(ref.term)
    I.ctx.assume(z3.And(h >= 0, h <= 0xFFFF))
    return SRef(fresh_ref("sizes"), "MessageSizes", {"header": h})


def _iov_items(I, iov):
    """normalise the iov list into [(type name or None, bytes or None)]"""
    out = []
    for it in I.iter_values(iov):
        if isinstance(it, tuple) and len(it) == 2 and isinstance(it[0], Builtin):
            out.append((it[0].name.replace(IOV, ""), it[1]))
        elif isinstance(it, Builtin):
            out.append((it.name.replace(IOV, ""), None))
        elif I.is_byteslike(it):
            out.append(("data", it))
        else:
            out.append(("?", it))
    return out


@REG.extern_method("SpnegoContext.wrap_iov")
def _wrap_iov(I, ref, args, kw):
    """A-SPNEGO: wrap_iov seals the `data` buffers in place (same length), signs `sign_only` buffers together with them,
    leaves `data_readonly` buffers out of the signature, and returns the signature of size query_message_sizes().header
    in the `header` buffer."""
    items = _iov_items(I, args[0])
    I.ctx.event("wrap_iov", items=items, encrypt=kw.get("encrypt"), qop=kw.get("qop", None), ctx=ref)
    site = I.site("wrap_iov")
    I.ctx.prove(f"{site}.pre.encrypt", kw.get("encrypt") is True)
    seq = fresh_int("seq")
    bufs = []
    signed = [b for t, b in items if t in ("sign_only", "data") and b is not None]
    signed_t = R.to_term(I.ctx, R.Rope([s for b in signed for s in I.rope_of(b).segs]))
    for t, b in items:
        if t == "data":
            ct = SEAL(ref.term, R.to_term(I.ctx, I.rope_of(b)), seq)
            I.ctx.assume(blen(ct) == Z(I.bytes_len(b)))
            bufs.append(SRef(fresh_ref("buf"), "IOVBuffer", {"data": SBytes(R.Rope([R.full_atom(ct)]))}))
        elif t == "header":
            sg = SIGN(ref.term, signed_t, seq)
            I.ctx.assume(blen(sg) == HDRLEN(ref.term))
            I.ctx.assume(z3.And(HDRLEN(ref.term) >= 0, HDRLEN(ref.term) <= 0xFFFF))
            bufs.append(SRef(fresh_ref("buf"), "IOVBuffer", {"data": SBytes(R.Rope([R.full_atom(sg)]))}))
        else:
            bufs.append(SRef(fresh_ref("buf"), "IOVBuffer", {"data": b}))
    return SRef(fresh_ref("iovres"), "IOVResult", {"buffers": bufs})


@REG.extern_method("SpnegoContext.unwrap_iov")
def _unwrap_iov(I, ref, args, kw):
    """A-SPNEGO: unwrap_iov verifies the signature in the `header` buffer over the sign_only and data buffers and
    returns the plaintext of the data buffers (same length), or raises."""
    items = _iov_items(I, args[0])
    I.ctx.event("unwrap_iov", items=items, ctx=ref)
    if I.branch(fresh_bool("bad_signature")):
        I.raise_("spnego.exceptions.SpnegoError")
    bufs = []
    sig = [b for t, b in items if t == "header"]
    sig_t = R.to_term(I.ctx, I.rope_of(sig[0])) if sig and sig[0] is not None else R.EMPTY
    for t, b in items:
        if t == "data":
            pt = UNSEAL(ref.term, R.to_term(I.ctx, I.rope_of(b)), sig_t)
            I.ctx.assume(blen(pt) == Z(I.bytes_len(b)))
            bufs.append(SRef(fresh_ref("buf"), "IOVBuffer", {"data": SBytes(R.Rope([R.full_atom(pt)]))}))
        else:
            bufs.append(SRef(fresh_ref("buf"), "IOVBuffer", {"data": b}))
    return SRef(fresh_ref("iovres"), "IOVResult", {"buffers": bufs})


# ------------------------------------------------------------------------------------------------ AuthenticationProvider
def empty_trailer(c, prov, pad_length, h):
    return SObj(cls(c, "SecTrailer"), {"type": prov.fields["provider"], "level": enum_val(c, "AuthenticationLevel", 6, "RPC_C_AUTHN_LEVEL_PKT_PRIVACY"),
                                        "pad_length": pad_length, "context_id": 0, "auth_value": c.rope(c.zeros(h))})


@REG.contract("dpapi_ng._rpc._auth.AuthenticationProvider.get_empty_trailer", props=["C13", "C16"])
def get_empty_trailer(c):
    prov = c.param("self", provider_kind())
    pad = c.param("pad_length", T.int(0, 255))
    H = hdrlen(c, prov.fields["ctx"])
    cur = Z(prov.fields["_header_length"])
    h = z3.If(cur != 0, cur, H)  # cached size, or the context's signature size
    c.returns(empty_trailer(c, prov, pad, h))
    c.raises_only(set())
    if c.verifying:
        c.post("caches-the-size", lambda: Z(prov.fields["_header_length"]) == h)
    else:
        c.effect(lambda: prov.fields.__setitem__("_header_length", h))


def _buffers_ok(c, ev, header, body, trailer, sign_header, signature=None):
    """the IOV handed to the security context: [(sign_only|data_readonly, header), body, (same, trailer), header-buffer]"""
    items = ev["items"]
    want_t = "sign_only" if sign_header else "data_readonly"
    if len(items) != 4:
        return False
    (t0, b0), (t1, b1), (t2, b2), (t3, b3) = items
    conj = [t0 == want_t, t1 == "data", t2 == want_t, t3 == "header", c.eq(b0, header), c.eq(b1, body), c.eq(b2, trailer)]
    conj.append(b3 is None if signature is None else (b3 is not None and c.eq(b3, signature)))
    return c.And(*conj)


@REG.contract("dpapi_ng._rpc._auth.AuthenticationProvider.wrap", props=["C13"])
def wrap(c):
    prov = c.param("self", provider_kind())
    header = c.param("header", T.Bytes)
    body = c.param("body", T.Bytes)
    trailer = c.param("trailer", T.Bytes)
    sign_header = c.param("sign_header", T.Bool)
    ctxref = prov.fields["ctx"]
    c.raises_only(set())
    if c.verifying:
        if c.ctx.branch(sign_header):
            sh = True
        else:
            sh = False

        def sealed_once():
            ev = [d for k, d in c.ctx.trace if k == "wrap_iov"]
            return c.And(len(ev) == 1, _buffers_ok(c, ev[0], header, body, trailer, sh)) if ev else False

        c.post("seals-exactly-the-body-signs-header-and-trailer-iff-asked", sealed_once)

        def shape(r):
            ev = [d for k, d in c.ctx.trace if k == "wrap_iov"]
            n = c.len(r)
            return [Z(n) == Z(c.len(header)) + Z(c.len(body)) + Z(c.len(trailer)) + HDRLEN(ctxref.term),
                    c.eq(SBytes(R.py_slice(c.ctx, c.I.rope_of(r), 0, c.len(header))), header),
                    c.eq(SBytes(R.py_slice(c.ctx, c.I.rope_of(r), Z(c.len(header)) + Z(c.len(body)), Z(c.len(header)) + Z(c.len(body)) + Z(c.len(trailer)))), trailer)]

        c.ensures("header-and-trailer-in-clear-body-replaced-signature-appended", shape)
    else:
        seq = fresh_int("seq")
        signed_t = R.to_term(c.ctx, R.Rope(list(c.I.rope_of(header).segs) + list(c.I.rope_of(body).segs) + list(c.I.rope_of(trailer).segs)))
        ct = SEAL(ctxref.term, R.to_term(c.ctx, c.I.rope_of(body)), seq)
        sg = SIGN(ctxref.term, signed_t, seq)
        c.assume(blen(ct) == Z(c.len(body)))
        c.assume(blen(sg) == hdrlen(c, ctxref))
        c.effect(lambda: c.ctx.event("wrap", header=header, body=body, trailer=trailer, sign_header=sign_header, provider=prov))
        c.returns(c.rope(header, SBytes(R.Rope([R.full_atom(ct)])), trailer, SBytes(R.Rope([R.full_atom(sg)]))))


@REG.contract("dpapi_ng._rpc._auth.AuthenticationProvider.unwrap", props=["C16", "C13"])
def unwrap(c):
    prov = c.param("self", provider_kind())
    header = c.param("header", T.Bytes)
    body = c.param("body", T.Bytes)
    trailer = c.param("trailer", T.Bytes)
    signature = c.param("signature", T.Bytes)
    sign_header = c.param("sign_header", T.Bool)
    ctxref = prov.fields["ctx"]
    c.raises("spnego.exceptions.SpnegoError", when=None)
    c.raises_only({"spnego.exceptions.SpnegoError"})
    if c.verifying:
        sh = bool(c.ctx.branch(sign_header))

        def verified_once():
            ev = [d for k, d in c.ctx.trace if k == "unwrap_iov"]
            return c.And(len(ev) == 1, _buffers_ok(c, ev[0], header, body, trailer, sh, signature)) if ev else False

        c.post("verifies-signature-over-header-body-trailer", verified_once)
        c.ensures("returns-the-unsealed-body", lambda r: c.eq(r, SBytes(R.Rope([R.full_atom(UNSEAL(ctxref.term, R.to_term(c.ctx, c.I.rope_of(body)), R.to_term(c.ctx, c.I.rope_of(signature))))]))))
    else:
        pt = UNSEAL(ctxref.term, R.to_term(c.ctx, c.I.rope_of(body)), R.to_term(c.ctx, c.I.rope_of(signature)))
        c.assume(blen(pt) == Z(c.len(body)))
        c.effect(lambda: c.ctx.event("unwrap", header=header, body=body, trailer=trailer, signature=signature, sign_header=sign_header, provider=prov, result=pt))
        c.returns(SBytes(R.Rope([R.full_atom(pt)])))


# ------------------------------------------------------------------------------------------------ RpcClient
class ClientKind(Kind):
    """An RpcClient with no authentication provider, or with an arbitrary one (case split)."""

    def __init__(self, auth="any", cls_name="RpcClient", extra=None):
        self.auth = auth
        self.cls_name = cls_name
        self.extra = extra or {}

    def fresh(self, c, name):
        if self.auth == "any":
            a = None if c.ctx.branch(z3.Bool(name + "_no_auth")) else c.fresh(provider_kind(), name + "._auth")
        elif self.auth is None:
            a = None
        else:
            a = c.fresh(provider_kind(), name + "._auth")
        f = {"_auth": a, "_sign_header": c.fresh(T.Bool, name + "._sign_header")}
        for k, v in self.extra.items():
            f[k] = v.fresh(c, f"{name}.{k}") if isinstance(v, Kind) else v
        return SObj(cls(c, self.cls_name), f)


def client_kind(auth="any"):
    return ClientKind(auth)


def abstract_vt(c, name):
    """None or a verification trailer whose packed bytes are an arbitrary ghost value"""
    if c.ctx.branch(z3.Bool(name + "_absent")):
        return None, None
    vt = SObj(cls(c, "VerificationTrailer"), {"signature": SBytes(R.Rope.lit(b"\x8a\xe3\x13\x71\x02\xf4\x36\x71")), "commands": []})
    b = c.fresh(T.bytes(max_len=4096), name + ".packed")
    c.assume(Z(c.len(b)) >= 8)
    vt.ghost["packed"] = b
    return vt, b


def request_layout(c, stub, vt_bytes, auth):
    """(stub as sent, pad_length): stub, zero padding to 4, verification trailer; then zero padding to 16 when authenticated"""
    s1 = stub if vt_bytes is None else c.rope(stub, c.zeros(c.mod(-Z(c.len(stub)), 4)), vt_bytes)
    if not auth:
        return s1, None
    pad = c.mod(-Z(c.len(s1)), 16)
    return c.rope(s1, c.zeros(pad)), pad


@REG.contract("dpapi_ng._rpc._client.RpcClient._create_request", props=["C13"])
def create_request(c):
    self_ = c.param("self", client_kind())
    ctx_id = c.param("context_id", U16)
    opnum = c.param("opnum", U16)
    stub = c.param("stub_data", T.bytes(max_len=60000))
    if c.verifying:
        vt, vtb = abstract_vt(c, "verification_trailer")
        c.param("verification_trailer", T.const(vt))
    else:
        vt = c.param("verification_trailer")
        vtb = None if vt is None else vt.ghost.get("packed")
        if vt is not None and vtb is None:
            c.inline_instead()
    auth = self_.fields["_auth"]
    stub2, pad = request_layout(c, stub, vtb, auth is not None)
    c.raises_only(set())
    if auth is not None:
        H = hdrlen(c, auth.fields["ctx"])
        cur = Z(auth.fields["_header_length"])
        h = z3.If(cur != 0, cur, H)
        st = empty_trailer(c, auth, pad, h)
        auth_len = h
        offsets = (24, 24 + Z(c.len(stub2)))
        if not c.verifying:
            c.effect(lambda: auth.fields.__setitem__("_header_length", h))
    else:
        st, auth_len, offsets = None, 0, None
    hdr = SObj(cls(c, "PDUHeader"), {"version": 5, "version_minor": 0, "packet_type": enum_val(c, "PacketType", 0, "REQUEST"),
                                      "packet_flags": enum_val(c, "PacketFlags", 3), "data_rep": SObj(cls(c, "DataRep"), {
                                          "byte_order": enum_val(c, "IntegerRep", 1, "LITTLE_ENDIAN"), "character": enum_val(c, "CharacterRep", 0, "ASCII"),
                                          "floating_point": enum_val(c, "FloatingPointRep", 0, "IEEE")}),
                                      "frag_len": 0, "auth_len": auth_len, "call_id": 1})
    req = SObj(cls(c, "Request"), {"header": hdr, "sec_trailer": st, "alloc_hint": c.len(stub2), "context_id": ctx_id, "opnum": opnum, "obj": None, "stub_data": stub2})
    c.returns((req, offsets))
    if not c.verifying:
        c.effect(lambda: c.ctx.event("create_request", client=self_, context_id=ctx_id, opnum=opnum, stub=stub, verification_trailer=vt, pdu=req, offsets=offsets))
    if c.verifying:
        # consequences the property names explicitly (implied by the equality above; kept as separate obligations)
        def aligned(r):
            q, off = r
            n = Z(c.len(q.fields["stub_data"]))
            conj = []
            if auth is not None:
                conj += [c.mod(n, 16) == 0, Z(q.fields["sec_trailer"].fields["pad_length"]) == n - Z(c.len(stub if vtb is None else c.rope(stub, c.zeros(c.mod(-Z(c.len(stub)), 4)), vtb)))]
            return conj or True

        c.ensures("stub-16-byte-aligned-and-pad-length-is-the-padding-added", aligned)


@REG.contract("dpapi_ng._rpc._client.RpcClient._prepare_pdu", props=["C13"])
def prepare_pdu(c):
    """frag_len is patched to the PDU size; with authentication exactly [24, 24+len(stub)) is handed to the security
    context as the data buffer, header = first 24 bytes, trailer = the 8 bytes after the stub."""
    if not c.verifying:
        wire = c.fresh(T.bytes(max_len=0xFFFF), "wire")
        c.effect(lambda: c.ctx.event("prepare_pdu", pdu=c.param("pdu"), encrypt_offsets=c.param("encrypt_offsets"), wire=wire, client=c.param("self")))
        c.raises_only(set())
        c.returns(wire)
        return
    self_ = c.param("self", client_kind())
    auth = self_.fields["_auth"]
    # a request as produced by _create_request (any stub, any trailer token size)
    stub = c.fresh(T.bytes(max_len=60000), "stub")
    ctx_id, opnum = c.fresh(U16, "context_id"), c.fresh(U16, "opnum")
    hdr = header_fresh(c, "hdr", packet_type=enum_val(c, "PacketType", 0, "REQUEST"))
    # PFC_OBJECT_UUID clear: no object UUID in requests built by this client
    c.assume(c.mod(c.div(c.I.as_int(hdr.fields["packet_flags"]), 128), 2) == 0)
    if auth is not None:
        st = SObj(cls(c, "SecTrailer"), {"type": auth.fields["provider"], "level": enum_val(c, "AuthenticationLevel", 6, "RPC_C_AUTHN_LEVEL_PKT_PRIVACY"),
                                          "pad_length": c.fresh(U8, "pad_length"), "context_id": 0, "auth_value": c.fresh(T.bytes(max_len=4096), "auth_value")})
        offsets = (24, 24 + Z(c.len(stub)))
    else:
        st, offsets = None, None
    pdu = SObj(cls(c, "Request"), {"header": hdr, "sec_trailer": st, "alloc_hint": c.fresh(U32, "alloc_hint"), "context_id": ctx_id, "opnum": opnum, "obj": None, "stub_data": stub})
    c.param("pdu", T.const(pdu))
    c.param("encrypt_offsets", T.const(offsets))
    c.raises_only(set())
    from .c_rpc import request_body_rope

    body = {"alloc_hint": pdu.fields["alloc_hint"], "context_id": ctx_id, "opnum": opnum, "stub_data": stub}
    packed = c.rope(header_rope(c, hdr), request_body_rope(c, body), c.rope() if st is None else sectrailer_rope(c, st))
    total = c.len(packed)
    c.requires(Z(total) < 2**16, "single-fragment")
    patched_hdr = SObj(hdr.cls, {**hdr.fields, "frag_len": total})
    wire_plain = c.rope(header_rope(c, patched_hdr), request_body_rope(c, body), c.rope() if st is None else sectrailer_rope(c, st))
    if auth is None:
        c.returns(wire_plain)
    else:
        hdr24 = c.rope(header_rope(c, patched_hdr), c.le(body["alloc_hint"], 4), c.le(ctx_id, 2), c.le(opnum, 2))
        tr8 = SBytes(R.py_slice(c.ctx, c.I.rope_of(sectrailer_rope(c, st)), 0, 8))

        def sealed_region():
            ev = [d for k, d in c.ctx.trace if k == "wrap"]
            if len(ev) != 1:
                return False
            d = ev[0]
            return [c.eq(d["header"], hdr24), c.eq(d["body"], stub), c.eq(d["trailer"], tr8), c.eq(d["sign_header"], self_.fields["_sign_header"]), d["provider"] is auth]

        c.post("exactly-the-stub-region-is-sealed-header-and-trailer-in-clear", sealed_region)

        def wire(r):
            # header ++ sealed stub ++ 8 trailer bytes ++ signature: frag_len (already in the header) equals this size iff
            # the signature has the size announced in auth_len
            n = Z(c.len(r))
            return [n == 24 + Z(c.len(stub)) + 8 + HDRLEN(auth.fields["ctx"].term),
                    c.eq(SBytes(R.py_slice(c.ctx, c.I.rope_of(r), 0, 24)), hdr24)]

        c.ensures("wire-layout", wire)


# ------------------------------------------------------------------------------------------------ reply path (C13, C16)
def reply_setup(c, self_):
    """An arbitrary received fragment R (any bytes) with the header object the receive loop parsed from its first
    16 bytes: frag_len = LE16(R[8:10]) = len(R) (the receive buffer is allocated with frag_len bytes)."""
    resp = c.fresh(T.bytes(kind="bytearray", max_len=0xFFFF), "response")
    rope = c.I.rope_of(resp)
    c.assume(Z(c.len(resp)) >= 16)
    g = lambda a, b: R.to_int(c.ctx, R.py_slice(c.ctx, rope, a, b), "little")  # noqa: E731
    frag_len, auth_len = g(8, 10), g(10, 12)
    c.assume(Z(frag_len) == Z(c.len(resp)))
    hdr = header_fresh(c, "pdu_header", frag_len=frag_len, auth_len=auth_len)
    return resp, rope, hdr, frag_len, auth_len


@REG.contract("dpapi_ng._rpc._client.RpcClient._process_response", props=["C16", "C13"])
def process_response(c):
    """C16: on an authenticated connection with a sealed request, a normal return hands back the plaintext that
    unwrap() produced for a partition header | body | trailer | signature of the WHOLE reply; a reply without a
    security trailer is rejected. C15: BindNak / Fault / any other type than the expected one is an error."""
    if not c.verifying:
        # callers (C14, C15): the processed reply is some PDU of the expected type, or an error
        resp_type = c.param("resp_type")
        c.effect(lambda: c.ctx.event("process_response", response=c.param("response"), pdu_header=c.param("pdu_header"), resp_type=resp_type,
                                     encrypt_offsets=c.param("encrypt_offsets"), client=c.param("self")))
        c.raises("ValueError", when=None)
        c.raises("KeyError", when=None)
        c.raises("IndexError", when=None)
        c.raises("spnego.exceptions.SpnegoError", when=None)
        from .c_rpc import reply_object

        c.returns(reply_object(c, resp_type.cls.name))
        return
    self_ = c.param("self", ClientKind("any"))
    auth = self_.fields["_auth"]
    resp, rope, hdr, frag_len, auth_len = reply_setup(c, self_)
    c.param("response", T.const(resp))
    c.param("pdu_header", T.const(hdr))
    expect = ["Response", "BindAck", "AlterContextResponse"][c.ctx.choose(3, "resp_type")]
    from pyvc.values import ClassRef

    c.param("resp_type", T.const(ClassRef(cls(c, expect))))
    sealed_request = auth is not None and expect == "Response" and bool(c.ctx.branch(z3.Bool("request_was_sealed")))
    offsets = (24, 24 + Z(c.fresh(T.int(0, 0xFFFF), "sent_stub_len"))) if sealed_request else None
    c.param("encrypt_offsets", T.const(offsets))
    original = R.Rope(rope.segs)
    from .c_rpc import annotate_pdu_loops

    annotate_pdu_loops(c)
    c.raises("ValueError", when=None)
    c.raises("KeyError", when=None)  # packet type without a decoder
    c.raises("IndexError", when=None)  # truncated body
    c.raises("spnego.exceptions.SpnegoError", when=None)
    c.raises_only({"ValueError", "KeyError", "IndexError", "spnego.exceptions.SpnegoError"})

    def right_type(r):
        # isinstance semantics: AlterContextResponse is a BindAck
        return isinstance(r, SObj) and cls(c, expect).ref in r.cls.mro

    c.ensures("only-the-expected-pdu-type-is-returned", right_type)
    if sealed_request:
        n = Z(c.len(SBytes(original)))
        sto = Z(frag_len) - (Z(auth_len) + 8)
        sl = lambda a, b: SBytes(R.py_slice(c.ctx, original, a, b))  # noqa: E731

        def sealed(r):
            ev = [d for k, d in c.ctx.trace if k == "unwrap"]
            if len(ev) != 1:
                return False  # never return key material that did not go through the security context
            d = ev[0]
            return [
                Z(auth_len) > 0,
                c.eq(d["header"], sl(0, 24)), c.eq(d["body"], sl(24, sto)), c.eq(d["trailer"], sl(sto, sto + 8)), c.eq(d["signature"], sl(sto + 8, None)),
                # (for 24 <= sto <= len-8 these four buffers partition the whole fragment; a reply whose declared lengths
                # make them overlap is still handed to unwrap() in full and is rejected there by A-SPNEGO/A-IDEAL)
                c.eq(d["sign_header"], self_.fields["_sign_header"]), d["provider"] is auth,
                # the stub is what unwrap() returned - or nothing at all when the declared lengths are inconsistent
                # (auth_len + 8 > frag_len); never bytes that bypassed the security context
                c.Or(c.eq(r.fields["stub_data"], SBytes(R.Rope([R.full_atom(d["result"])]))), Z(c.len(r.fields["stub_data"])) == 0),
            ]

        c.ensures("stub-is-the-unwrapped-plaintext-of-the-whole-reply", sealed)


@REG.contract("dpapi_ng._client._process_get_key_result", props=["C13", "C11", "C17"])
def process_get_key_result(c):
    """exactly the declared auth padding is stripped before the GetKey reply is decoded"""
    stub = c.fresh(T.bytes(max_len=0xFFFF), "stub")
    if c.ctx.branch(z3.Bool("no_sec_trailer")):
        st, pad = None, 0
    else:
        pad = c.fresh(U8, "pad_length")
        st = SObj(cls(c, "SecTrailer"), {"type": c.fresh(T.enum("SecurityProvider"), "type"), "level": c.fresh(T.enum("AuthenticationLevel"), "level"),
                                          "pad_length": pad, "context_id": c.fresh(U32, "ctx"), "auth_value": c.fresh(T.Bytes, "auth_value")})
    resp = SObj(cls(c, "Response"), {"header": None, "sec_trailer": st, "alloc_hint": 0, "context_id": 0, "cancel_count": 0, "stub_data": stub})
    if c.verifying:
        c.param("response", T.const(resp))
        seen = {}
        c.I.on_call["dpapi_ng._gkdi.GetKey.unpack_response"] = lambda I_, b: seen.setdefault("data", b["data"])
        c.raises("ValueError", when=None)
        c.raises_only({"ValueError"})
        n = Z(c.len(stub))
        want = SBytes(R.py_slice(c.ctx, c.I.rope_of(stub), 0, z3.If(n - Z(pad) >= 0, n - Z(pad), 0))) if st is not None else stub
        c.requires(z3.Or(Z(pad) <= n, Z(pad) == 0), "declared-padding-within-the-stub")
        c.post("decoder-gets-the-stub-minus-declared-padding", lambda: ("data" in seen) and c.eq(seen["data"], want))
        # the only source of an error is the decoder itself: a well-formed reply is never rejected here
        c.post_exc("errors-come-from-the-decoder", lambda e: ("data" in seen) and c.eq(seen["data"], want))
    else:
        from .c_gkdi import envelope

        r = c.param("response")
        c.raises("ValueError", when=None)
        e = c.fresh(envelope(), "dc_envelope")
        c.effect(lambda: c.ctx.event("get_key_result", response=r, result=e))
        c.returns(e)


# ================================================================================================ C14: reassembly under any segmentation
# Ghost model of the peer (A-NET): the bytes it will deliver are one opaque string STREAM followed by EOF; `cur` is how
# much has been consumed. recv_into(view) delivers ANY 1..min(len(view), remaining) bytes, and 0 only at EOF;
# readexactly(n) delivers exactly n bytes or raises IncompleteReadError. Proving the caller against these
# nondeterministic contracts proves it for every segmentation and every EOF point.
STREAM = z3.Const("STREAM", Bytes)
REG.extern_exceptions["asyncio.IncompleteReadError"] = ["EOFError", "Exception", "BaseException", "object"]


def stream_init(c):
    c.assume(z3.And(blen(STREAM) >= 0, blen(STREAM) <= 2**63 - 1))
    c.ctx.ghost["cur"] = 0


def stream_slice(a, b):
    return SBytes(R.Rope([R.Atom(STREAM, a, b)]))


@REG.extern_method("socket.recv_into")
def _recv_into_ext(I, ref, args, kw):
    from pyvc.values import SView

    view = args[0]
    if isinstance(view, SBytes) and view.kind == "bytearray":
        view = SView(view, 0, I.bytes_len(view))  # recv_into(bytearray) writes into the bytearray itself
    if not isinstance(view, SView):
        raise OutOfReach("recv_into on something that is neither a bytearray nor a view of one")
    n = I.bytes_len(view)
    cur = I.ctx.ghost["cur"]
    left = blen(STREAM) - Z(cur)
    k = fresh_int("recv_k")
    I.ctx.assume(z3.And(k >= 0, k <= Z(n), k <= left, z3.Implies(z3.And(left > 0, Z(n) > 0), k >= 1)))
    I.ctx.event("recv_into", n=n, k=k)
    I.setslice(view, 0, k, stream_slice(cur, Z(cur) + k))
    I.ctx.ghost["cur"] = Z(cur) + k
    return k


@REG.extern_method("socket.recv")
def _recv_ext(I, ref, args, kw):
    """recv(n): any 1..min(n, remaining) bytes, or b"" at EOF"""
    n = I.as_int(args[0])
    flags = args[1] if len(args) > 1 else kw.get("flags", 0)
    from pyvc.smt import conc_int

    flags = conc_int(I.as_int(flags)) if I.is_intlike(flags) else None
    MSG_PEEK, MSG_WAITALL = 2, 0x100
    if flags is None or flags & ~(MSG_PEEK | MSG_WAITALL):
        raise OutOfReach("recv with flags other than MSG_PEEK / MSG_WAITALL")
    cur = I.ctx.ghost["cur"]
    left = blen(STREAM) - Z(cur)
    k = fresh_int("recv_k")
    I.ctx.assume(z3.And(k >= 0, k <= Z(n), k <= left, z3.Implies(z3.And(left > 0, Z(n) > 0), k >= 1)))
    if flags & MSG_WAITALL:
        # blocks until n bytes or EOF (signals and errors aside): min(n, remaining)
        I.ctx.assume(z3.Or(k == Z(n), k == left))
    I.ctx.event("recv", n=n, k=k, flags=flags)
    if not flags & MSG_PEEK:
        I.ctx.ghost["cur"] = Z(cur) + k  # MSG_PEEK leaves the data in the queue
    return stream_slice(cur, Z(cur) + k)


@REG.extern_method("StreamReader.read")
def _sr_read(I, ref, args, kw):
    """await reader.read(n): any 1..min(n, remaining) bytes, or b"" at EOF"""
    from pyvc.values import Coro

    n = I.as_int(args[0]) if args else -1
    if not I.ctx.entails(Z(n) >= 0):
        raise OutOfReach("StreamReader.read without a non-negative size")
    cur = I.ctx.ghost["cur"]
    left = blen(STREAM) - Z(cur)
    k = fresh_int("read_k")
    I.ctx.assume(z3.And(k >= 0, k <= Z(n), k <= left, z3.Implies(z3.And(left > 0, Z(n) > 0), k >= 1)))
    I.ctx.event("read", n=n, k=k)
    I.ctx.ghost["cur"] = Z(cur) + k
    return Coro(stream_slice(cur, Z(cur) + k))


@REG.extern_method("socket.sendall")
def _sendall(I, ref, args, kw):
    I.ctx.event("send", data=args[0])
    return None


@REG.extern_method("StreamWriter.write")
def _sw_write(I, ref, args, kw):
    I.ctx.event("send", data=args[0])
    return None


@REG.extern_method("StreamWriter.drain")
def _sw_drain(I, ref, args, kw):
    from pyvc.values import Coro

    return Coro(None)


@REG.extern_method("StreamReader.readexactly")
def _readexactly(I, ref, args, kw):
    from pyvc.values import Coro

    n = I.as_int(args[0])
    if I.branch(Z(n) < 0):
        I.raise_("ValueError")
    cur = I.ctx.ghost["cur"]
    if I.branch(blen(STREAM) - Z(cur) < Z(n)):
        I.raise_("asyncio.IncompleteReadError")
    I.ctx.ghost["cur"] = Z(cur) + Z(n)
    I.ctx.event("readexactly", n=n)
    return Coro(stream_slice(cur, Z(cur) + Z(n)))


def _fresh_len(I_, n):
    tt = fresh_bytes("buffer_now")
    I_.ctx.assume(blen(tt) == Z(n))
    return tt


def sync_client(auth="any"):
    return ClientKind(auth, "SyncRpcClient", {"_sock": T.ref("socket")})


def async_client(auth="any"):
    return ClientKind(auth, "AsyncRpcClient", {"_reader": T.ref("StreamReader"), "_writer": T.ref("StreamWriter")})


@REG.contract("dpapi_ng._rpc._client.SyncRpcClient._recv_into", props=["C14"])
def recv_into(c):
    """Fills the whole view with the next len(view) stream bytes whatever the chunking, or raises ConnectionError
    when the stream ends first; the loop variant (bytes still missing) gives termination."""
    from pyvc.values import SView

    self_ = c.param("self", sync_client())
    if c.verifying:
        stream_init(c)
        cur0 = c.fresh(T.int(0), "cur0")
        c.assume(cur0 <= blen(STREAM))
        c.ctx.ghost["cur"] = cur0
        buf = c.fresh(T.bytes(kind="bytearray", max_len=0xFFFF), "buffer")
        a = c.fresh(T.int(0), "view_start")
        c.assume(Z(a) <= Z(c.len(buf)))
        view = SView(buf, a, c.len(buf))
        c.param("view", T.const(view))
        before = R.Rope(buf.rope.segs)
        total = c.len(buf)
    else:
        view = c.param("view")
        if not isinstance(view, SView):
            c.inline_instead()
        buf, a = view.base, view.start
        cur0 = c.ctx.ghost["cur"]
        before = R.Rope(buf.rope.segs)
        total = buf.rope.length()
    want = Z(view.stop) - Z(a)
    short = blen(STREAM) - Z(cur0) < want
    c.raises("ConnectionError", when=short)
    c.raises_only({"ConnectionError"})

    def filled():
        got = SBytes(R.py_slice(c.ctx, buf.rope, a, view.stop))
        keep = SBytes(R.py_slice(c.ctx, buf.rope, 0, a))
        return [c.eq(got, stream_slice(cur0, Z(cur0) + want)), c.eq(keep, SBytes(R.py_slice(c.ctx, before, 0, a))), Z(c.ctx.ghost["cur"]) == Z(cur0) + want,
                Z(buf.rope.length()) == Z(total)]

    if c.verifying:
        c.post("view-holds-the-next-bytes-of-the-stream", filled)

        def havoc_buffer(I_, s):
            t = fresh_bytes("buffer_now")
            I_.ctx.assume(blen(t) == Z(total))
            buf.rope = R.Rope([R.full_atom(t)])

        def inv(s):
            done = Z(s.view.start) - Z(a)
            return [
                s.view.base is buf, Z(s.view.stop) == Z(view.stop), Z(s.view.start) >= Z(a), Z(s.view.start) <= Z(view.stop),
                Z(s.cur) == Z(cur0) + done, Z(s.cur) <= blen(STREAM), Z(buf.rope.length()) == Z(total),
                c.eq(SBytes(R.py_slice(c.ctx, buf.rope, a, s.view.start)), stream_slice(cur0, Z(cur0) + done)),
                c.eq(SBytes(R.py_slice(c.ctx, buf.rope, 0, a)), SBytes(R.py_slice(c.ctx, before, 0, a))),
            ]

        c.loop(0, invariant=inv, variant=lambda s: Z(s.view.stop) - Z(s.view.start), havoc_heap=[havoc_buffer], ghost=("ticks", "copied", "kdf_calls", "cur"))
    else:
        def eff():
            left, rest = R.split_at(c.ctx, buf.rope, a)
            _, right = R.split_at(c.ctx, rest, want)
            buf.rope = left + R.Rope([R.Atom(STREAM, cur0, Z(cur0) + want)]) + right
            c.ctx.ghost["cur"] = Z(cur0) + want

        c.effect(eff)


def _send_pdu_contract(flavour):
    def spec(c):
        """The reply handed to _process_response is STREAM[:frag_len] with frag_len = LE16(STREAM[8:10]) and the header
        object decoded from STREAM[:16] - whatever the segmentation; a stream that ends early is an error."""
        from pyvc.values import ClassRef

        if not c.verifying:
            if c.ctx.ghost.get("hs") is not None:
                return bind_send_monitor(c, c.param("pdu"), c.param("resp_type").cls.name)
            if c.ctx.ghost.get("request_under_verification"):
                # summary for request(): some reply of the requested type, or one of the errors proved above (C14, C16)
                from .c_rpc import reply_object

                pdu, rt, offs, cl = c.param("pdu"), c.param("resp_type"), c.param("encrypt_offsets"), c.param("self")
                for e in ("ConnectionError" if flavour == "sync" else "asyncio.IncompleteReadError", "ValueError", "KeyError", "IndexError", "spnego.exceptions.SpnegoError"):
                    c.raises(e, when=None)
                reply = reply_object(c, rt.cls.name)
                c.effect(lambda: c.ctx.event("send_pdu", client=cl, pdu=pdu, resp_type=rt.cls.name, encrypt_offsets=offs, reply=reply))
                c.returns(reply)
                return
            c.inline_instead()
        self_ = c.param("self", sync_client() if flavour == "sync" else async_client())
        pdu = SObj(cls(c, "Request"), {})
        c.param("pdu", T.const(pdu))
        c.param("resp_type", T.const(ClassRef(cls(c, ["Response", "BindAck", "AlterContextResponse"][c.ctx.choose(3, "resp_type")]))))
        offs = None if c.ctx.branch(z3.Bool("no_offsets")) else (24, 24 + Z(c.fresh(T.int(0, 0xFFFF), "stub_len")))
        c.param("encrypt_offsets", T.const(offs))
        stream_init(c)
        L = blen(STREAM)
        F = R.to_int(c.ctx, R.Rope([R.Atom(STREAM, 8, 10)]), "little")
        eof = "ConnectionError" if flavour == "sync" else "asyncio.IncompleteReadError"
        c.raises(eof, when=z3.Or(L < 16, L < Z(F)), label="optional")
        c.raises("ValueError", when=None)
        c.raises("KeyError", when=None)
        c.raises("IndexError", when=None)
        c.raises("spnego.exceptions.SpnegoError", when=None)
        c.raises_only({eof, "ValueError", "KeyError", "IndexError", "spnego.exceptions.SpnegoError"})
        c.expect_cover("exit.raise." + eof)

        def reassembled():
            tr = c.ctx.trace
            ev = [d for k, d in tr if k == "process_response"]
            snd = [i for i, (k, d) in enumerate(tr) if k == "send"]
            rcv = [i for i, (k, d) in enumerate(tr) if k in ("recv_into", "readexactly")]
            prep = [d for k, d in tr if k == "prepare_pdu"]
            if len(ev) != 1 or len(snd) != 1 or len(prep) != 1:
                return False
            d = ev[0]
            hdr = c.I.call_repo(c.I.P.find_func("dpapi_ng._rpc._pdu.PDUHeader.unpack"), [ClassRef(cls(c, "PDUHeader")), stream_slice(0, 16)], {}, force_inline=True)
            return [
                c.eq(d["response"], stream_slice(0, Z(F))), Z(F) >= 16, L >= Z(F),
                c.eq(d["pdu_header"], hdr), d["encrypt_offsets"] is offs, d["client"] is self_,
                all(i > snd[0] for i in rcv),  # the request goes out once, before anything is read
                c.eq(tr[snd[0]][1]["data"], prep[0]["wire"]), prep[0]["pdu"] is pdu, prep[0]["encrypt_offsets"] is offs,
            ]

        c.post("decodes-exactly-the-first-fragment-of-the-stream-independently-of-segmentation", reassembled)
        if flavour == "sync":
            # annotation for a receive loop written inline in _send_pdu (the shape of the code before the read-exactly
            # helper existed): the bytes still missing must strictly decrease
            c.loop(0, invariant=lambda s: [Z(s.cur) <= L, Z(s.cur) >= 0], variant=lambda s: Z(c.len(s.view)), ghost=("ticks", "copied", "kdf_calls", "cur"),
                   havoc_heap=[lambda I_, s: setattr(s.resp, "rope", R.Rope([R.full_atom(_fresh_len(I_, s.resp.rope.length()))]))])

    return spec


REG.contract("dpapi_ng._rpc._client.SyncRpcClient._send_pdu", props=["C14"])(_send_pdu_contract("sync"))
REG.contract("dpapi_ng._rpc._client.AsyncRpcClient._send_pdu", props=["C14"])(_send_pdu_contract("async"))


# ================================================================================================ C15: bind / authentication handshake
# Ghost monitor (typestate) kept in ctx.ghost["hs"]:
#   last_out   token most recently produced by the provider (bytes value) or None
#   sent       whether last_out has been put on the wire (bool / z3 Bool)
#   last_reply the most recent bind_ack / alter_context_resp object, or None before the first reply
#   n_sent     number of PDUs sent so far (0: next must be a Bind; >0: next must be an AlterContext)
#   acks_sign  conjunction of "server advertised PFC_SUPPORT_HEADER_SIGN" over all replies so far
REG.externs["concurrent.futures.ThreadPoolExecutor"] = lambda I, fn, a, k: SRef(fresh_ref("executor"), "Executor")
REG.externs["asyncio.get_event_loop"] = lambda I, fn, a, k: SRef(fresh_ref("loop"), "EventLoop")


@REG.extern_method("EventLoop.run_in_executor")
def _run_in_executor(I, ref, args, kw):
    """A-PY/asyncio: the awaited result of run_in_executor(executor, func, *args) is func(*args) (run on a worker thread
    that touches only the authentication provider)."""
    from pyvc.values import Coro

    r = I.call_value(args[1], list(args[2:]), {})
    return Coro(r.value if isinstance(r, Coro) else r)


def token_or_empty(c, reply):
    if reply is None or reply.fields["sec_trailer"] is None:
        return SBytes(R.Rope())
    return reply.fields["sec_trailer"].fields["auth_value"]


@REG.extern_method("SpnegoContext.step")
def _ctx_step(I, ref, args, kw):
    """A-SPNEGO + monitor: step() / step(token) returns the next token (None or bytes). The monitor demands that the
    client feeds the server's latest token (b"" when there is none) and has sent the previous output first."""
    hs = I.ctx.ghost.get("hs")
    tok = args[0] if args else kw.get("in_token")
    site = I.site("step")
    if hs is not None:
        if hs["n_steps"] == 0:
            I.ctx.prove(f"{site}.pre.first-step-has-no-input", tok is None or I.truth(tok) is False)
        else:
            want = hs["want_in"]
            I.ctx.prove(f"{site}.pre.feeds-the-latest-server-token", tok is not None and I.eq(tok, want))
            I.ctx.prove(f"{site}.pre.previous-token-was-sent", hs["sent"])
            # no further leg once the security context is complete (the client must have looked, and seen "not complete")
            I.ctx.prove(f"{site}.pre.context-not-complete", hs.get("complete") is not None and I._not(hs["complete"]))
        hs["n_steps"] += 1
    if I.branch(fresh_bool("step_fails")):
        I.raise_("spnego.exceptions.SpnegoError")
    if I.branch(fresh_bool("step_returns_none")):
        out = None
    else:
        t = fresh_bytes("client_token")
        I.ctx.assume(z3.And(blen(t) >= 0, blen(t) <= 0xFFFF))
        out = SBytes(R.Rope([R.full_atom(t)]))
    if hs is not None:
        hs["last_out"] = out if out is not None else SBytes(R.Rope())  # the provider wrapper turns None into b""
        hs["sent"] = (out is None) or I._not(I.truth(out))  # an empty token needs no sending
    I.ctx.event("step", input=tok, output=out)
    return out


@REG.extern_attribute("SpnegoContext", "complete")
def _ctx_complete(I, ref):
    b = fresh_bool("ctx_complete")
    hs = I.ctx.ghost.get("hs")
    if hs is not None:
        hs["complete"] = b
    return b


def bind_send_monitor(c, pdu, resp_type_name):
    """call-mode contract of _send_pdu during a handshake"""
    I = c.I
    hs = c.ctx.ghost["hs"]
    kind = pdu.cls.name
    st = pdu.fields["sec_trailer"]
    flags = Z(I.as_int(pdu.fields["header"].fields["packet_flags"]))
    sign_bit = c.mod(c.div(flags, 4), 2) == 1
    c.requires(kind == ("Bind" if hs["n_sent"] == 0 else "AlterContext"), "bind-first-then-alter-context")
    if hs["auth"]:
        c.requires(st is not None and c.eq(st.fields["auth_value"], hs["last_out"]) if hs["last_out"] is not None else False, "carries-the-token-just-produced")
        c.requires(c.Or(c.Not(hs["sent"]), Z(c.len(hs["last_out"])) == 0) if hs["last_out"] is not None else False, "non-empty-token-not-sent-before")
        if st is not None:
            c.requires(Z(I.as_int(pdu.fields["header"].fields["auth_len"])) == Z(c.len(st.fields["auth_value"])), "auth_len-is-the-token-size")
            c.requires(Z(I.as_int(st.fields["level"])) == 6, "PKT_PRIVACY")
        c.requires(sign_bit == Z(hs["client_sign"]), "header-sign-flag-as-negotiated-so-far")
    else:
        c.requires(st is None, "no-trailer-without-authentication")
    from .c_rpc import reply_object

    reply = reply_object(c, resp_type_name)
    rflags = Z(I.as_int(reply.fields["header"].fields["packet_flags"]))
    rsign = c.mod(c.div(rflags, 4), 2) == 1

    def eff():
        hs["sent"] = True
        hs["n_sent"] += 1
        hs["last_reply"] = reply
        hs["want_in"] = token_or_empty(c, reply)
        hs["acks_sign"] = c.And(hs["acks_sign"], rsign)
        hs["replies"].append(reply)
        c.ctx.event("send_pdu", pdu_kind=kind, pdu=pdu, reply=reply)

    c.effect(eff)
    c.raises("ValueError", when=None)  # bind_nak, fault, unexpected type (C16 contract of _process_response), malformed reply
    c.raises("ConnectionError", when=None)
    c.raises("asyncio.IncompleteReadError", when=None)
    c.raises("KeyError", when=None)
    c.raises("IndexError", when=None)
    c.raises("spnego.exceptions.SpnegoError", when=None)
    c.returns(reply)


def _bind_contract(flavour):
    def spec(c):
        I = c.I
        if not c.verifying:
            # summary for the conversation contracts (C17): some first ack, or an error; the handshake itself is this contract
            cl, contexts = c.param("self"), c.param("contexts")
            for e in ("ValueError", "KeyError", "IndexError", "ConnectionError", "asyncio.IncompleteReadError", "spnego.exceptions.SpnegoError"):
                c.raises(e, when=None)
            from .c_rpc import reply_object

            ack = reply_object(c, "BindAck")
            c.effect(lambda: c.ctx.event("bind", client=cl, contexts=contexts, ack=ack))
            c.returns(ack)
            return
        self_ = c.param("self", sync_client() if flavour == "sync" else async_client())
        auth = self_.fields["_auth"]
        n_ctx = 1 + c.ctx.choose(2, "n_contexts")
        from .c_rpc import context_fresh

        contexts = [context_fresh(c, f"ctx{i}", 1) for i in range(n_ctx)]
        c.param("contexts", T.const(contexts))
        if auth is not None:
            c.assume(c.Not(self_.fields["_sign_header"]))  # a fresh client (RpcClient.__init__)
        hs = {"auth": auth is not None, "last_out": None, "sent": True, "last_reply": None, "want_in": SBytes(R.Rope()), "n_sent": 0, "n_steps": 0,
              "acks_sign": True, "client_sign": True if auth is not None else False, "replies": []}
        c.ctx.ghost["hs"] = hs
        errs = {"ValueError", "KeyError", "IndexError", "ConnectionError", "asyncio.IncompleteReadError", "spnego.exceptions.SpnegoError"}
        for e in errs:
            c.raises(e, when=None)
        c.raises_only(errs)

        def done(r):
            conj = [hs["n_sent"] >= 1, r is (hs["replies"][0] if hs["replies"] else None)]
            # every token the provider produced went out (the last output was sent, or was empty)
            conj.append(hs["sent"])
            if auth is not None:
                # header signing exactly when the client asked for it and every reply advertised it
                conj.append(Z(self_.fields["_sign_header"]) == Z(hs["acks_sign"]))
            return conj

        c.ensures("first-ack-returned-all-tokens-sent-header-sign-iff-both-sides", done)
        if auth is not None:
            from .c_rpc import reply_object

            def havoc_monitor(I_, s):
                # an arbitrary later point of the handshake: some token was produced and sent, some reply received
                t = fresh_bytes("client_token")
                I_.ctx.assume(blen(t) >= 0)
                rep = reply_object(c, "AlterContextResponse" if I_.ctx.branch(fresh_bool("later_leg")) else "BindAck")
                hs["last_out"] = SBytes(R.Rope([R.full_atom(t)]))
                hs["sent"] = True
                hs["n_sent"] = 1 if rep.cls.name == "BindAck" else 2
                hs["n_steps"] = 1
                hs["last_reply"] = rep
                hs["want_in"] = token_or_empty(c, rep)
                hs["acks_sign"] = fresh_bool("acks_sign")
                hs["replies"] = [hs["replies"][0] if hs["replies"] else rep]
                hs["client_sign"] = hs["acks_sign"]
                hs["complete"] = None
                self_.fields["_sign_header"] = hs["acks_sign"]

            def inv(s):
                rep = hs["last_reply"]
                tok = None if rep is None or rep.fields["sec_trailer"] is None else rep.fields["sec_trailer"].fields["auth_value"]
                in_tok = s.in_token
                same = (in_tok is None and tok is None) or (in_tok is not None and tok is not None and c.eq(in_tok, tok))
                return [hs["sent"], same, Z(self_.fields["_sign_header"]) == Z(hs["acks_sign"]), hs["n_sent"] >= 1, s.bind_ack is hs["replies"][0]]

            def havoc_in_token(I_, cur, s):
                rep = hs["last_reply"]
                return None if rep.fields["sec_trailer"] is None else rep.fields["sec_trailer"].fields["auth_value"]

            c.loop(0, invariant=inv, havoc_heap=[havoc_monitor], havoc={"in_token": havoc_in_token, "sec_trailer": lambda I_, cur, s: cur,
                                                                         "alter_context": lambda I_, cur, s: None, "alter_resp": lambda I_, cur, s: None,
                                                                         "_": lambda I_, cur, s: None})

    return spec


REG.contract("dpapi_ng._rpc._client.SyncRpcClient.bind", props=["C15"])(_bind_contract("sync"))
REG.contract("dpapi_ng._rpc._client.AsyncRpcClient.bind", props=["C15"])(_bind_contract("async"))


@REG.contract("dpapi_ng._client._process_bind_result", props=["C15", "C17"])
def process_bind_result(c):
    """A request may only follow if the server ACCEPTED the presentation context the caller wants to use."""
    from .c_rpc import context_fresh, result_fresh

    if not c.verifying:
        req = c.param("requested_contexts")
        ack = c.param("bind_ack")
        desired = c.param("desired_context")
        c.raises("ValueError", when=None)
        c.raises("IndexError", when=None)
        c.effect(lambda: c.ctx.event("bind_result_checked", ack=ack, desired=desired, requested=req))
        c.returns(None)
        return
    n_req = 1 + c.ctx.choose(2, "n_requested")
    n_res = c.ctx.choose(4, "n_results")
    requested = [context_fresh(c, f"req{i}", 1) for i in range(n_req)]
    results = [result_fresh(c, f"res{i}") for i in range(n_res)]
    ack = SObj(cls(c, "BindAck"), {"header": None, "sec_trailer": None, "max_xmit_frag": 0, "max_recv_frag": 0, "assoc_group": 0, "sec_addr": "", "results": results})
    desired = c.fresh(U16, "desired_context")
    c.param("requested_contexts", T.const(requested))
    c.param("bind_ack", T.const(ack))
    c.param("desired_context", T.const(desired))
    accepted = c.Or(*[c.And(Z(c.I.as_int(results[i].fields["result"])) == 0, Z(requested[i].fields["context_id"]) == Z(desired)) for i in range(min(n_req, n_res))])
    more_results_than_requested = n_res > n_req and c.Or(*[Z(c.I.as_int(results[i].fields["result"])) == 0 for i in range(n_req, n_res)])
    c.raises("ValueError", when=c.And(c.Not(accepted), c.Not(more_results_than_requested)))
    c.raises("IndexError", when=None, label="optional")  # an accepted result beyond the requested contexts (malformed ack)
    c.raises_only({"ValueError", "IndexError"})
    c.returns(None)
    c.post("returns-only-if-the-desired-context-was-accepted", lambda: accepted)


def _request_contract(flavour):
    def spec(c):
        if not c.verifying:
            return _request_summary(c)
        self_ = c.param("self", sync_client() if flavour == "sync" else async_client())
        ctx_id, opnum = c.param("context_id", U16), c.param("opnum", U16)
        stub = c.param("stub_data", T.bytes(max_len=60000))
        vt, _ = abstract_vt(c, "verification_trailer")
        c.param("verification_trailer", T.const(vt))
        c.ctx.ghost["request_under_verification"] = True
        eof = "ConnectionError" if flavour == "sync" else "asyncio.IncompleteReadError"
        errs = {eof, "ValueError", "KeyError", "IndexError", "spnego.exceptions.SpnegoError"}
        for e in sorted(errs):
            c.raises(e, when=None)
        c.raises_only(errs)

        def ok(r):
            cr = [d for k, d in c.ctx.trace if k == "create_request"]
            sp = [d for k, d in c.ctx.trace if k == "send_pdu"]
            if len(cr) != 1 or len(sp) != 1:
                return False
            a, b = cr[0], sp[0]
            return [a["client"] is self_, c.eq(a["context_id"], ctx_id), c.eq(a["opnum"], opnum), c.eq(a["stub"], stub), a["verification_trailer"] is vt,
                    b["client"] is self_, b["pdu"] is a["pdu"], b["resp_type"] == "Response", (b["encrypt_offsets"] is a["offsets"]) or c.eq(b["encrypt_offsets"], a["offsets"]),
                    r is b["reply"]]

        c.ensures("one-request-built-from-the-arguments-sent-once-reply-returned", ok)

    return spec


def _request_summary(c):
    """request() = _create_request (C13) + _send_pdu (C14, C16): for the conversation contracts a Response or an error"""
    cl = c.param("self")
    if not cl.ghost.get("conn"):
        c.inline_instead()
    ctx_id, opnum, stub, vt = c.param("context_id"), c.param("opnum"), c.param("stub_data"), c.param("verification_trailer")
    for e in ("ValueError", "KeyError", "IndexError", "ConnectionError", "asyncio.IncompleteReadError", "spnego.exceptions.SpnegoError"):
        c.raises(e, when=None)
    from .c_rpc import reply_object

    resp = reply_object(c, "Response")
    c.effect(lambda: c.ctx.event("request", client=cl, context_id=ctx_id, opnum=opnum, stub=stub, verification_trailer=vt, response=resp))
    c.returns(resp)


REG.contract("dpapi_ng._rpc._client.SyncRpcClient.request", props=["C17", "C13"], note="composition of _create_request (C13) and _send_pdu (C14/C16); its summary is used by C17")(_request_contract("sync"))
REG.contract("dpapi_ng._rpc._client.AsyncRpcClient.request", props=["C17", "C13"], note="composition of _create_request (C13) and _send_pdu (C14/C16); its summary is used by C17")(_request_contract("async"))
