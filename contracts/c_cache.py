"""Contracts for KeyCache (C10): representation invariant, cover test, monotone store, no repeated RPC."""
import z3

from pyvc import rope as R
from pyvc.contracts import T
from pyvc.smt import Bytes, Ref, Str, Z, blen, fresh_bytes, fresh_int, fresh_str
from pyvc.values import SBytes, SObj, SStr, SUUID, SymMap

from . import REG
from .c_client import HASHOBJ, kdf_params_rope
from .c_gkdi import atom, envelope, valid_seed
from .spec import L1K, base_of, covers, in32, in_range

# The TRUE key material behind a root key id (ghost): what the domain controller holds. A loaded root key is the true one
# (load_key's precondition: the caller supplies the genuine msKds-RootKeyData), and a conforming DC answers from it (A-DC).
TRUEROOT = z3.Function("TRUE_ROOT_KEY", Bytes, Bytes)
TRUEHASH = z3.Function("TRUE_KDF_HASH_NAME", Bytes, Str)


def true_hash(g_t):
    return HASHOBJ(TRUEHASH(g_t))


def true_base(I, g_t, sd_t, l0):
    b = base_of(true_hash(g_t), TRUEROOT(g_t), g_t, l0, sd_t)
    I.ctx.assume(blen(b) == 64)
    return b


def inv_entry(c, g, sd, l0, e):
    """Inv for the entry stored under (root key id g, security descriptor sd, L0): a non-public envelope for that triple whose
    keys are the TRUE chain values for its position and whose KDF parameters name the true hash."""
    I = c.I
    g_t = R.to_term(c.ctx, g.rope)
    sd_t = R.to_term(c.ctx, I.rope_of(sd))
    f = e.fields
    return c.And(
        c.eq(f["root_key_identifier"], g), c.eq(f["l0"], l0), c.mod(f["flags"], 2) == 0,
        c.eq(f["kdf_parameters"], kdf_params_rope(c, SStr(TRUEHASH(g_t)))), c.eq(f["kdf_algorithm"], "SP800_108_CTR_HMAC") if isinstance(f["kdf_algorithm"], str) else True,
        valid_seed(I, true_hash(g_t), e, true_base(I, g_t, sd_t, l0)),
    )


def fresh_entry(c, g, sd, l0, name):
    """an arbitrary envelope satisfying Inv for the triple"""
    g_t = R.to_term(c.ctx, g.rope)
    e = c.fresh(envelope(root_key_identifier=T.const(g), l0=T.const(l0), kdf_parameters=T.const(kdf_params_rope(c, SStr(TRUEHASH(g_t)))),
                         kdf_algorithm=T.const("SP800_108_CTR_HMAC")), name)
    c.assume(inv_entry(c, g, sd, l0, e))
    e.ghost["base"] = true_base(c.I, g_t, R.to_term(c.ctx, c.I.rope_of(sd)), l0)
    e.ghost["hash_name"] = SStr(TRUEHASH(g_t))
    return e


def cache_obj(c, name="cache"):
    """A KeyCache with arbitrary content satisfying Inv (root keys are true root keys)."""
    count = [0]

    def seed_initial(I, key):
        g, sd, l0 = key
        count[0] += 1
        if I.ctx.branch(z3.Bool(f"{name}.seed_absent!{count[0]}")):
            return None
        return fresh_entry(c, g, sd, l0, f"{name}.seed{count[0]}")

    def root_initial(I, key):
        (g,) = key
        count[0] += 1
        if I.ctx.branch(z3.Bool(f"{name}.root_absent!{count[0]}")):
            return None
        g_t = R.to_term(c.ctx, g.rope)
        rk_cls = c.I.P.find_class("RootKey")
        key_b = atom(TRUEROOT(g_t))
        return SObj(rk_cls, {"key": key_b, "version": c.fresh(T.int(0, 2**32 - 1), f"{name}.rk_version"), "kdf_algorithm": "SP800_108_CTR_HMAC",
                             "kdf_parameters": kdf_params_rope(c, SStr(TRUEHASH(g_t))), "secret_algorithm": c.fresh(T.Str, f"{name}.rk_secret_alg"),
                             "secret_parameters": c.fresh(T.opt(T.Bytes), f"{name}.rk_secret_params"), "private_key_length": c.fresh(T.int(0, 2**32 - 1), f"{name}.rk_priv"),
                             "public_key_length": c.fresh(T.int(0, 2**32 - 1), f"{name}.rk_pub")})

    return SObj(c.I.P.find_class("KeyCache"), {"_root_keys": SymMap(1, root_initial), "_seed_keys": SymMap(3, seed_initial)})


def pos_le(a1, a2, b1, b2):
    """(a1,a2) <= (b1,b2) lexicographically"""
    return z3.Or(Z(a1) < Z(b1), z3.And(Z(a1) == Z(b1), Z(a2) <= Z(b2)))


# ================================================================================================ _get_key
@REG.contract("dpapi_ng._client.KeyCache._get_key", props=["C10", "C02", "C05"])
def get_key(c):
    I = c.I
    if not c.verifying:
        # summary for callers: None, or the entry now stored for the triple, which satisfies Inv and covers an in-range request
        sd, g = c.param("target_sd"), c.param("root_key_id")
        l0, l1, l2 = c.param("l0"), c.param("l1"), c.param("l2")
        cache = c.param("self")
        c.raises("ValueError", when=None)
        c.raises("NotImplementedError", when=None)
        c.ghost_bound("kdf_calls", 2)
        if c.ctx.branch(z3.Bool("getkey_miss!%d" % len(c.ctx.taken))):
            c.effect(lambda: c.ctx.event("cache_get", cache=cache, sd=sd, rkid=g, l0=l0, l1=l1, l2=l2, result=None))
            c.returns(None)
            return
        e = fresh_entry(c, g, sd, l0, "cached")
        c.assume(z3.Implies(in_range(l1, l2), covers(e.fields["l1"], e.fields["l2"], l1, l2)))
        c.effect(lambda: c.ctx.event("cache_get", cache=cache, sd=sd, rkid=g, l0=l0, l1=l1, l2=l2, result=e))
        c.returns(e)
        return
    cache = cache_obj(c)
    c.param("self", T.const(cache))
    sd = c.param("target_sd", T.Bytes)
    g = c.param("root_key_id", T.UUID)
    l0 = c.param("l0", T.int(0, 2**32 - 1))
    l1 = c.param("l1", T.int(0, 2**32 - 1))
    l2 = c.param("l2", T.int(0, 2**32 - 1))
    c.raises("ValueError", when=None)  # L0 beyond the signed 32-bit range of the KDF context
    c.raises("NotImplementedError", when=None)  # root key with an unsupported hash
    c.raises_only({"ValueError", "NotImplementedError"})
    c.ghost_bound("kdf_calls", 2)  # C05: the L1 seed from a loaded root key costs two KDF calls, a cache hit none
    seeds, roots = cache.fields["_seed_keys"], cache.fields["_root_keys"]
    key = (g, sd, l0)

    def before(m, k):
        for kk, v in m.before:
            if I.ctx.entails(Z(I.eq(kk, k))):
                return v
        return "untouched"

    def ok(r):
        old = before(seeds, key)
        root = before(roots, (g,))
        now = seeds.current(I, key)
        conj = []
        if r is None:
            # a miss is only reported when nothing usable is cached: no loaded root key, and no covering entry
            conj.append(root is None or root == "untouched")
            if isinstance(old, SObj):
                conj.append(c.Not(covers(old.fields["l1"], old.fields["l2"], l1, l2)))
            conj.append(now is old or (old in (None, "untouched") and now is None))
            return conj
        conj.append(inv_entry(c, g, sd, l0, r))
        conj.append(c.implies(in_range(l1, l2), covers(r.fields["l1"], r.fields["l2"], l1, l2)))
        conj.append(now is r)  # what is returned is what is stored for the triple
        if isinstance(old, SObj):
            # the stored position never moves backwards
            conj.append(pos_le(old.fields["l1"], old.fields["l2"], r.fields["l1"], r.fields["l2"]))
            # once a covering entry exists it is the answer (no second RPC, no recomputation)
            conj.append(c.implies(covers(old.fields["l1"], old.fields["l2"], l1, l2), r is old))
        return conj

    c.ensures("inv-cover-stored-monotone", ok)
    c.post("frame-only-this-triple-is-written", lambda: all(I.ctx.entails(Z(I.eq(k, key))) for k in seeds.written) and not roots.written)


# ================================================================================================ _store_key
@REG.contract("dpapi_ng._client.KeyCache._store_key", props=["C10", "C01"])
def store_key(c):
    I = c.I
    if not c.verifying:
        cache, sd, key = c.param("self"), c.param("target_sd"), c.param("key")
        c.raises_only(set())
        c.effect(lambda: c.ctx.event("cache_store", cache=cache, sd=sd, key=key))
        c.returns(None)
        return
    cache = cache_obj(c)
    c.param("self", T.const(cache))
    sd = c.param("target_sd", T.Bytes)
    key = c.param("key", envelope(l0=T.int(0, 2**32 - 1), l1=T.int(0, 31), l2=T.int(0, 31)))
    f = key.fields
    g, l0 = f["root_key_identifier"], f["l0"]
    seeds = cache.fields["_seed_keys"]
    k3 = (g, sd, l0)
    c.raises_only(set())

    def ok():
        old = None
        for kk, v in seeds.before:
            if I.ctx.entails(Z(I.eq(kk, k3))):
                old = v
        now = seeds.current(I, k3)
        if old is None:
            return now is key
        later = c.Not(pos_le(f["l1"], f["l2"], old.fields["l1"], old.fields["l2"]))  # strictly later position
        if I.ctx.entails(later):
            return now is key
        if I.ctx.entails(c.Not(later)):
            return now is old  # an earlier or equal position never replaces what is cached
        return False

    c.post("keeps-the-later-position", ok)
    c.post("frame-only-this-triple-is-written", lambda: all(I.ctx.entails(Z(I.eq(k, k3))) for k in seeds.written) and not cache.fields["_root_keys"].written)


@REG.lemma("store_preserves_inv", props=["C10"])
def store_preserves_inv(c):
    """Inv is preserved by _store_key whenever the stored key itself satisfies Inv for its triple (callers: the envelope returned
    by a conforming DC for the requested triple, A-DC; the protect path's envelope is never stored because the cached entry
    already covers 'now' - postcondition of _store_key: an equal or earlier position never replaces the entry)."""
    p1, p2, q1, q2 = z3.Ints("p1 p2 q1 q2")
    stored_is_new = z3.Not(pos_le(p1, p2, q1, q2))
    # what _store_key's postcondition says, as a formula: result position = new if strictly later else old
    r1 = z3.If(stored_is_new, p1, q1)
    r2 = z3.If(stored_is_new, p2, q2)
    c.prove("stored-position-is-the-maximum", z3.And(pos_le(q1, q2, r1, r2), pos_le(p1, p2, r1, r2)))
    a1, a2 = z3.Ints("a1 a2")
    # no_second_rpc: a request at or before the stored position is covered by the stored entry afterwards
    c.prove("covered-requests-stay-covered", z3.Implies(z3.And(covers(q1, q2, a1, a2)), covers(r1, r2, a1, a2)))
    c.prove("a-stored-key-covers-its-own-and-earlier-positions", z3.Implies(pos_le(a1, a2, p1, p2), covers(r1, r2, a1, a2)))
    # protect path: the envelope built for "now" (position a) from a cached entry (position q) that covers "now" is never strictly later
    # than that entry, so _store_key leaves the cache unchanged and the (not ValidSeed) protection envelope is never cached
    c.prove("protection-envelope-is-never-stored", z3.Implies(covers(q1, q2, a1, a2), pos_le(a1, a2, q1, q2)))


# ================================================================================================ load_key
@REG.contract("dpapi_ng._client.KeyCache.load_key", props=["C10"])
def load_key(c):
    """load_key records exactly the given root key material under the given id and touches nothing else; the documented defaults
    are the SHA512 KDF parameters and, for DH, the RFC 5114 2.3 group as captured from Windows (tests/data/ffc_dh_parameters)."""
    import os

    from .c_codecs import kdf_parameters_rope

    I = c.I
    if not c.verifying:
        c.inline_instead()
    cache = cache_obj(c)
    c.param("self", T.const(cache))
    key = c.param("key", T.Bytes)
    g = c.param("root_key_id", T.UUID)
    version = c.param("version", T.int(0, 2**32 - 1))
    kdf_alg = c.param("kdf_algorithm", T.Str)
    kdf_params = c.param("kdf_parameters", T.opt(T.Bytes))
    sa = ["DH", "ECDH_P256", c.fresh(T.Str, "other_secret_algorithm")][c.ctx.choose(3, "secret_algorithm")]
    if not isinstance(sa, str):
        from pyvc.smt import str_lit

        c.assume(z3.And(sa.term != str_lit("DH"), sa.term != str_lit("ECDH_P256")))  # the third case is "any other name"
    c.param("secret_algorithm", T.const(sa))
    sec_params = c.param("secret_parameters", T.opt(T.Bytes))
    priv, pub = c.param("private_key_length", T.int(0, 2**32 - 1)), c.param("public_key_length", T.int(0, 2**32 - 1))
    c.raises_only(set())
    roots, seeds = cache.fields["_root_keys"], cache.fields["_seed_keys"]
    captured = open(os.path.join(I.P.repo_root, "tests", "data", "ffc_dh_parameters"), "rb").read()

    def ok():
        now = roots.current(I, (g,))
        if not isinstance(now, SObj) or now.cls.name != "RootKey":
            return False
        f = now.fields
        given = lambda v: v is not None and I.ctx.entails(Z(c.len(v)) != 0)  # noqa: E731
        absent = lambda v: v is None or I.ctx.entails(Z(c.len(v)) == 0)  # noqa: E731
        conj = [c.eq(f["key"], key), c.eq(f["version"], version), c.eq(f["kdf_algorithm"], kdf_alg), c.eq(f["secret_algorithm"], sa),
                c.eq(f["private_key_length"], priv), c.eq(f["public_key_length"], pub)]
        if given(kdf_params):
            conj.append(c.eq(f["kdf_parameters"], kdf_params))
        elif absent(kdf_params):
            conj.append(c.eq(f["kdf_parameters"], kdf_parameters_rope(c, "SHA512")))
        else:
            conj.append(False)
        same = lambda a, b: (a is None and b is None) or (a is not None and b is not None and c.eq(a, b))  # noqa: E731
        if sa != "DH":
            conj.append(same(f["secret_parameters"], sec_params))  # stored as given (the default group only applies to DH)
        elif given(sec_params):
            conj.append(c.eq(f["secret_parameters"], sec_params))
        elif absent(sec_params):
            conj.append(c.eq(f["secret_parameters"], SBytes(R.Rope.lit(captured))))
        else:
            conj.append(False)
        return conj

    c.post("records-exactly-the-given-root-key-with-the-documented-defaults", ok)
    c.post("frame-only-this-root-key-is-written", lambda: all(I.ctx.entails(Z(I.eq(k, (g,)))) for k in roots.written) and not seeds.written)
