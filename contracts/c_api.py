"""Contracts for the online conversation and the four public API functions (C17, C10, C04, C01)."""
import z3

from pyvc import rope as R
from pyvc.contracts import T
from pyvc.smt import Bytes, Ref, Str, Z, blen, fresh_bool, fresh_bytes, fresh_int, fresh_ref, fresh_str
from pyvc.values import ClassRef, Coro, SBytes, SEnum, SObj, SRef, SStr, SUUID

from . import REG
from .c_cache import cache_obj, fresh_entry, inv_entry, true_base, true_hash
from .c_codecs import getkey_request_rope, kid_of_opaque
from .c_gkdi import atom, envelope, valid_seed
from .c_rpc import reply_object
from .spec import covers, in_range

PLAINTEXT = z3.Function("DECRYPT_BLOB_RESULT", Bytes, Bytes, Bytes)  # (blob data term, key tag) -> what _decrypt_blob returns
ERRS = {"ValueError", "NotImplementedError", "OverflowError", "KeyError", "IndexError", "ConnectionError", "OSError", "asyncio.IncompleteReadError",
        "spnego.exceptions.SpnegoError", "dns.exception.DNSException", "cryptography.exceptions.InvalidTag",
        "cryptography.hazmat.primitives.keywrap.InvalidUnwrap", "dpapi_ng._asn1:NotEnougData", "asyncio.TimeoutError", "TimeoutError"}
REG.extern_exceptions["asyncio.TimeoutError"] = ["Exception", "BaseException", "object"]


def any_error(c):
    for e in sorted(ERRS):
        c.raises(e, when=None)
    c.raises_only(ERRS)


# ================================================================================================ summaries used by the API contracts
def _connect(c, flavour):
    from .c_rpcclient import provider_kind

    server, port = c.param("server"), c.param("port")
    user, pw, proto = c.param("username"), c.param("password"), c.param("auth_protocol")
    c.raises("OSError", when=None)
    if flavour == "async":
        c.raises("asyncio.TimeoutError", when=None)
    auth = None
    if proto is not None and c.I.truthy(proto):
        auth = c.fresh(provider_kind(), "provider")
    cls_name = "SyncRpcClient" if flavour == "sync" else "AsyncRpcClient"
    cl = SObj(c.I.P.find_class(cls_name), {"_auth": auth, "_sign_header": False, "_sock": SRef(fresh_ref("sock"), "socket"), "_reader": None, "_writer": None})
    cl.ghost["conn"] = True
    c.effect(lambda: c.ctx.event("connect", flavour=flavour, server=server, port=port, username=user, password=pw, auth_protocol=proto, client=cl))
    c.returns(cl)


# ================================================================================================ C17: the conversation
def _conversation(flavour):
    def spec(c):
        I = c.I
        if not c.verifying:
            # summary for the API functions (A-DC): a conforming DC returns, for GetKey(sd, rkid, l0, l1, l2), an envelope that is a
            # valid seed for the triple covering the request (seed-key reply) or a public-key envelope (public-key reply)
            args = {k: c.param(k) for k in ("server", "target_sd", "root_key_id", "l0", "l1", "l2", "username", "password", "auth_protocol")}
            c.ctx.event("dc_contact", how="get_key")  # from here on the process is talking to the network (C05's third outcome)
            for e in sorted(ERRS):
                c.raises(e, when=None)
            e = c.fresh(envelope(), "dc_reply")
            e.ghost["from_dc"] = True
            c.effect(lambda: c.ctx.event("get_key_rpc", flavour=flavour, result=e, **args))
            c.returns(e)
            return
        server = c.param("server", T.Str)
        sd = c.param("target_sd", T.bytes(max_len=4096))
        rkid = c.param("root_key_id", T.opt(T.UUID))
        l0, l1, l2 = (c.param(k, T.int(-1, 2**31 - 1)) for k in ("l0", "l1", "l2"))
        user, pw = c.param("username", T.opt(T.Str)), c.param("password", T.opt(T.Str))
        proto = c.param("auth_protocol", T.Str)
        from pyvc.interp import STRLEN

        c.assume(STRLEN(proto.term) != 0)
        any_error(c)
        ISD_KEY_UUID = bytes.fromhex("605978b94f52df118b6d83dcded72085")  # b9785960-524f-11df-8b6d-83dcded72085, bytes_le
        EPM_UUID = bytes.fromhex("0883afe11f5dc91191a408002b14a0fa")  # e1af8308-5d1f-11c9-91a4-08002b14a0fa
        NDR_UUID = bytes.fromhex("045d888aeb1cc9119fe808002b104860")  # 8a885d04-1ceb-11c9-9fe8-08002b104860
        NDR64_UUID = bytes.fromhex("33057171babe37498319b5dbef9ccc36")  # 71710533-beba-4937-8319-b5dbef9ccc36

        def syntax_is(s, uuid_le, ver, minor):
            return c.And(c.eq(s.fields["uuid"], SUUID(R.Rope.lit(uuid_le))), c.eq(s.fields["version"], ver), c.eq(s.fields["version_minor"], minor))

        def conversation(r):
            tr = [(k, d) for k, d in c.ctx.trace if k in ("connect", "bind", "bind_result_checked", "request", "close")]
            kinds = [k for k, _ in tr]
            want = ["connect", "bind", "bind_result_checked", "request", "close", "connect", "bind", "bind_result_checked", "request", "close"]
            if kinds != want:
                return False
            c1, b1, k1, q1, x1, c2, b2, k2, q2, x2 = (d for _, d in tr)
            conj = []
            # 1) endpoint mapper on port 135, no authentication, EPM over NDR64 on context 0
            conj += [c.eq(c1["server"], server), c.eq(c1["port"], 135), c1["auth_protocol"] is None, c1["flavour"] == flavour]
            conj += [len(b1["contexts"]) == 1, c.eq(b1["contexts"][0].fields["context_id"], 0), syntax_is(b1["contexts"][0].fields["abstract_syntax"], EPM_UUID, 3, 0),
                     len(b1["contexts"][0].fields["transfer_syntaxes"]) == 1, syntax_is(b1["contexts"][0].fields["transfer_syntaxes"][0], NDR64_UUID, 1, 0)]
            conj += [k1["ack"] is b1["ack"], c.eq(k1["desired"], 0), c.eq(k1["requested"], b1["contexts"])]
            # ept_map (opnum 3) for the ISD_KEY interface over NDR, TCP, max_towers 4 -- the request bytes are checked against the spec rope
            from .c_epm import eptmap_rope, floor_rope

            def uuid_floor(u, ver, minor):
                return floor_rope(c, 13, c.rope(u, c.le(ver, 2)), c.rope(c.le(minor, 2)))

            tower = c.rope(c.le(5, 2), uuid_floor(ISD_KEY_UUID, 1, 0), uuid_floor(NDR_UUID, 2, 0), floor_rope(c, 11, c.rope(), c.rope(c.le(0, 2))),
                           floor_rope(c, 7, c.rope(), c.rope(c.be(135, 2))), floor_rope(c, 9, c.rope(), c.rope(c.be(0, 4))))
            want_map = eptmap_rope(c, c.rope(b"\x00" * 16), tower, c.rope(b"\x00" * 20), 4)
            conj += [q1["client"] is c1["client"], c.eq(q1["context_id"], 0), c.eq(q1["opnum"], 3), c.eq(q1["stub"], want_map), q1["verification_trailer"] is None]
            conj += [x1["client"] is c1["client"]]
            # 2) the ISD_KEY endpoint on the mapped port, authenticated, ISD_KEY over NDR64 (context 0) + bind-time feature negotiation
            port_ev = [d for k, d in c.ctx.trace if k == "ept_port"]
            conj += [c.eq(c2["server"], server), len(port_ev) == 1 and c.eq(c2["port"], port_ev[0]["port"]) and port_ev[0]["response"] is q1["response"],
                     c.eq(c2["username"], user), c.eq(c2["password"], pw), c.eq(c2["auth_protocol"], proto), c2["flavour"] == flavour]
            ctxs = b2["contexts"]
            conj += [b2["client"] is c2["client"], len(ctxs) == 2, c.eq(ctxs[0].fields["context_id"], 0), syntax_is(ctxs[0].fields["abstract_syntax"], ISD_KEY_UUID, 1, 0),
                     len(ctxs[0].fields["transfer_syntaxes"]) == 1, syntax_is(ctxs[0].fields["transfer_syntaxes"][0], NDR64_UUID, 1, 0)]
            conj += [k2["ack"] is b2["ack"], c.eq(k2["desired"], 0), c.eq(k2["requested"], ctxs)]
            # GetKey (opnum 0) on the accepted context 0 with exactly the caller's arguments, carrying the interface verification trailer
            want_req = getkey_request_rope(c, sd, rkid, l0, l1, l2)
            vt = q2["verification_trailer"]
            conj += [q2["client"] is c2["client"], c.eq(q2["context_id"], 0), c.eq(q2["opnum"], 0), c.eq(q2["stub"], want_req)]
            if vt is None or len(vt.fields["commands"]) != 1:
                conj.append(False)
            else:
                cmd = vt.fields["commands"][0]
                conj += [cmd.cls.name == "CommandPContext", c.eq(c.I.as_int(cmd.fields["flags"]), 0x4000), syntax_is(cmd.fields["interface_id"], ISD_KEY_UUID, 1, 0),
                         syntax_is(cmd.fields["transfer_syntax"], NDR64_UUID, 1, 0)]
            conj += [x2["client"] is c2["client"]]
            # the result is the envelope decoded from the (padding-stripped) reply of that request
            gk = [d for k, d in c.ctx.trace if k == "get_key_result"]
            conj += [len(gk) == 1 and gk[0]["response"] is q2["response"] and r is gk[0]["result"]]
            return conj

        c.ensures("conducts-exactly-the-specified-conversation", conversation)

    return spec


REG.contract("dpapi_ng._client._sync_get_key", props=["C17"])(_conversation("sync"))
REG.contract("dpapi_ng._client._async_get_key", props=["C17"])(_conversation("async"))


# ================================================================================================ summaries for the API layer
BLOB_OF = {}


def _blob_unpack_summary(c):
    """DPAPINGBlob.unpack on arbitrary bytes (summary; the structural inverse is proved in C06): a blob value determined by the
    bytes, or a deliberate error."""
    from .c_cms import blob_obj

    data = c.param("data")
    t = R.to_term(c.ctx, c.I.rope_of(data))
    for e in ("ValueError", "NotImplementedError", "dpapi_ng._asn1:NotEnougData"):
        c.raises(e, when=None)
    from .c_codecs import KID_INTS, uf_fields

    kid = uf_fields(c.I, "BLOB.kid", t, {**{k: "int" for k in KID_INTS}, "root_key_identifier": "uuid", "key_info": "bytes", "domain_name": "str", "forest_name": "str"})
    for k in KID_INTS:
        c.assume(z3.And(kid[k] >= 0, kid[k] < 2**32))
    rest = uf_fields(c.I, "BLOB", t, {"sid": "str", "enc_cek": "bytes", "enc_cek_algorithm": "str", "enc_content": "bytes", "enc_content_algorithm": "str",
                                       "enc_cek_parameters": "bytes", "enc_content_parameters": "bytes"})
    for k in ("enc_cek_parameters", "enc_content_parameters"):
        # AlgorithmIdentifier.parameters is optional: None when the SEQUENCE ends after the OID
        if c.ctx.branch(z3.Function("BLOB." + k + ".absent", Bytes, z3.BoolSort())(t)):
            rest[k] = None
    f = {"kid": kid, **rest}
    b = blob_obj(c, f)
    b.ghost["data"] = t
    c.effect(lambda: c.ctx.event("blob_unpack", data=data, blob=b))
    c.returns(b)


def _decrypt_summary(c):
    blob, key = c.param("blob"), c.param("key")
    for e in ("ValueError", "NotImplementedError", "cryptography.exceptions.InvalidTag", "cryptography.hazmat.primitives.keywrap.InvalidUnwrap", "dpapi_ng._asn1:NotEnougData"):
        c.raises(e, when=None)
    c.ghost_bound("kdf_calls", 65)
    out = c.fresh(T.Bytes, "plaintext")
    c.effect(lambda: c.ctx.event("decrypt", blob=blob, key=key, result=out))
    c.returns(out)


def _encrypt_summary(c):
    data, key, pd = c.param("blob"), c.param("key"), c.param("protection_descriptor")
    for e in ("ValueError", "NotImplementedError", "OverflowError"):  # OverflowError: compute_public_key on a DC key with a short key_length field
        c.raises(e, when=None)
    out = c.fresh(T.Bytes, "dpapi_ng_blob")
    c.effect(lambda: c.ctx.event("encrypt", data=data, key=key, descriptor=pd, result=out))
    c.returns(out)


def _lookup_summary(flavour):
    def f(c):
        dom = c.param("domain_name")
        c.ctx.event("dc_contact", how="lookup_dc")  # from here on the process is talking to the network (C05's third outcome)
        c.raises("dns.exception.DNSException", when=None)
        rec = SObj(c.I.P.find_class("SrvRecord"), {"target": c.fresh(T.Str, "dc_name"), "port": fresh_int("p"), "weight": fresh_int("w"), "priority": fresh_int("pr")})
        c.effect(lambda: c.ctx.event("lookup_dc", flavour=flavour, domain=dom, record=rec))
        c.returns(rec)

    return f


def _protection_gke_summary(c):
    rkid, sd, cache = c.param("root_key_identifier"), c.param("target_sd"), c.param("cache")
    c.raises("ValueError", when=None)
    c.raises("NotImplementedError", when=None)
    if rkid is None or c.ctx.branch(z3.Bool("no_cached_key!%d" % len(c.ctx.taken))):
        c.effect(lambda: c.ctx.event("protection_key", cache=cache, sd=sd, rkid=rkid, result=None))
        c.returns(None)
        return
    e = c.fresh(envelope(root_key_identifier=T.const(rkid)), "current_key")
    c.assume(c.mod(e.fields["flags"], 2) == 0)
    c.effect(lambda: c.ctx.event("protection_key", cache=cache, sd=sd, rkid=rkid, result=e))
    c.returns(e)


API_SUMMARIES = {
    "dpapi_ng._blob.DPAPINGBlob.unpack": _blob_unpack_summary,
    "dpapi_ng._client._decrypt_blob": _decrypt_summary,
    "dpapi_ng._client._encrypt_blob": _encrypt_summary,
    "dpapi_ng._dns.lookup_dc": _lookup_summary("sync"),
    "dpapi_ng._dns.async_lookup_dc": _lookup_summary("async"),
    "dpapi_ng._client._get_protection_gke_from_cache": _protection_gke_summary,
}


def _wrap_call_mode(target, summary):
    """give an existing verify-only contract a call-mode behaviour (summary) without touching its verify mode"""
    spec = REG.contracts[target]
    inner = spec.fn

    def fn(c):
        if not c.verifying:
            return summary(c)
        return inner(c)

    spec.fn = fn
    spec.inline = False


for _t, _s in API_SUMMARIES.items():
    _wrap_call_mode(_t, _s)


# ================================================================================================ the four API functions
def _api(kind, flavour):
    def spec(c):
        I = c.I
        if not c.verifying:
            c.inline_instead()
        data = c.param("data", T.Bytes)
        if kind == "protect":
            sid = c.param("protection_descriptor", T.Str)
            rkid = c.param("root_key_identifier", T.opt(T.UUID))
            domain = c.param("domain_name", T.opt(T.Str))
        server = c.param("server", T.opt(T.Str))
        user, pw = c.param("username", T.opt(T.Str)), c.param("password", T.opt(T.Str))
        proto = c.param("auth_protocol", T.Str)
        cache = c.param("cache", T.const(SObj(I.P.find_class("KeyCache"), {})))  # a given cache (contents via the _get_key contract)
        any_error(c)
        from pyvc.interp import STRLEN

        def api_post(r):
            tr = c.ctx.trace
            ev = lambda k: [d for kk, d in tr if kk == k]  # noqa: E731
            rpc, look, store = ev("get_key_rpc"), ev("lookup_dc"), ev("cache_store")
            conj = []
            if kind == "unprotect":
                un, get, dec = ev("blob_unpack"), ev("cache_get"), ev("decrypt")
                if len(un) != 1 or len(get) != 1 or len(dec) != 1:
                    return False
                blob = un[0]["blob"]
                kid = blob.fields["key_identifier"].fields
                sdv = [d for kk, d in tr if kk == "target_sd"]
                conj += [c.eq(un[0]["data"], data)]
                # the key that is looked up / requested is exactly the one the blob names
                g = get[0]
                want_sd_t = z3.Function("TARGET_SD", Str, Bytes)(I.str_term(blob.fields["protection_descriptor"].fields["value"]))
                conj += [g["cache"] is cache, c.eq(g["sd"], SBytes(R.Rope([R.full_atom(want_sd_t)]))), c.eq(g["rkid"], kid["root_key_identifier"]),
                         c.eq(g["l0"], kid["l0"]), c.eq(g["l1"], kid["l1"]), c.eq(g["l2"], kid["l2"])]
                sd_val, rk_want, pos_want, dom = g["sd"], kid["root_key_identifier"], (kid["l0"], kid["l1"], kid["l2"]), kid["domain_name"]
                hit = g["result"]
            else:
                pk, enc = ev("protection_key"), ev("encrypt")
                if len(pk) != 1 or len(enc) != 1:
                    return False
                want_sd_t = z3.Function("TARGET_SD", Str, Bytes)(I.str_term(sid))
                conj += [pk[0]["cache"] is cache, c.eq(pk[0]["sd"], SBytes(R.Rope([R.full_atom(want_sd_t)]))), c.eq(pk[0]["rkid"], rkid)]
                sd_val, rk_want, pos_want, dom = pk[0]["sd"], rkid, (-1, -1, -1), domain
                hit = pk[0]["result"]
            if hit is not None:
                # C10: what the cache can answer is never asked from the domain controller
                conj += [len(rpc) == 0, len(look) == 0]
                key = hit
            else:
                if len(rpc) != 1:
                    return False
                q = rpc[0]
                # C17: one GetKey conversation, for exactly that key, with the caller's credentials, in this API flavour
                conj += [q["flavour"] == flavour, c.eq(q["target_sd"], sd_val), c.eq(q["root_key_id"], rk_want), c.eq(q["l0"], pos_want[0]), c.eq(q["l1"], pos_want[1]),
                         c.eq(q["l2"], pos_want[2]), c.eq(q["username"], user), c.eq(q["password"], pw), c.eq(q["auth_protocol"], proto)]
                use_given = server is not None and I.ctx.entails(STRLEN(server.term) != 0)
                if use_given:
                    conj += [len(look) == 0, c.eq(q["server"], server)]
                elif server is None or I.ctx.entails(STRLEN(server.term) == 0):
                    conj += [len(look) == 1 and look[0]["flavour"] == flavour and c.eq(look[0]["domain"], dom) and c.eq(q["server"], look[0]["record"].fields["target"])]
                else:
                    conj += [False]
                key = q["result"]
            # only seed keys (never a public-key envelope) are cached, under the same security descriptor
            is_public = c.mod(key.fields["flags"], 2) == 1
            if I.ctx.entails(is_public):
                conj += [len(store) == 0]
            elif I.ctx.entails(c.Not(is_public)):
                conj += [len(store) == 1 and store[0]["cache"] is cache and store[0]["key"] is key and c.eq(store[0]["sd"], sd_val)]
            else:
                conj += [False]
            if kind == "unprotect":
                # C04: the only value ever returned is what _decrypt_blob returned for this blob and this key
                conj += [dec[0]["blob"] is blob, dec[0]["key"] is key, r is dec[0]["result"]]
            else:
                conj += [c.eq(enc[0]["data"], data), enc[0]["key"] is key, c.eq(enc[0]["descriptor"].fields["value"], sid), r is enc[0]["result"]]
            return conj

        c.ensures("key-selection-rpc-discipline-and-result-routing", api_post)
        if kind == "unprotect":
            # C05: on untrusted bytes the call returns, or starts talking to a domain controller, or raises a deliberate error;
            # and the key-derivation work is bounded (2 for the L1 seed from a root key, 65 for the KEK)
            DELIBERATE = ("ValueError", "NotImplementedError", "NotEnougData", "InvalidTag", "InvalidUnwrap")

            def deliberate(exc):
                contacted = any(k == "dc_contact" for k, _ in c.ctx.trace)
                return contacted or any(exc.isinstance_of(a) or exc.type_name.split(":")[-1].split(".")[-1] == a for a in DELIBERATE)

            c.post_exc("only-deliberate-errors-before-any-network-contact", deliberate)
            c.ghost_bound("kdf_calls", 67)

    return spec


REG.contract("dpapi_ng._client.ncrypt_unprotect_secret", props=["C17", "C10", "C04", "C01", "C05"])(_api("unprotect", "sync"))
REG.contract("dpapi_ng._client.async_ncrypt_unprotect_secret", props=["C17", "C10", "C04", "C01", "C05"])(_api("unprotect", "async"))
REG.contract("dpapi_ng._client.ncrypt_protect_secret", props=["C17", "C10", "C01"])(_api("protect", "sync"))
REG.contract("dpapi_ng._client.async_ncrypt_protect_secret", props=["C17", "C10", "C01"])(_api("protect", "async"))


# ================================================================================================ C01: the round-trip theorem
@REG.lemma("round_trip", props=["C01"])
def round_trip(c):
    """unprotect(relayout(protect(P))) == P. A lemma over postconditions proved elsewhere (named on each hypothesis):
      H1  _encrypt_blob (C19/C06):  blob = LAYOUT(kid(flags,l0,l1,l2,rkid,ki,names), sid, KW(kek_e, cek), GCMENC(cek, nonce, P), GCMPARAMS(nonce))
                                     with kek_e = KDF(h, key.l2_key, label, ki, 32)                          (nonce mode)
      H2  _get_protection_gke_from_cache (C09/C01) or A-DC:  key.l2_key = L2K(true chain; l0,l1,l2)
      H3  DPAPINGBlob.unpack (C06):  unpack(LAYOUT(x, either layout)) = x
      H4  KeyCache._get_key (C10) or A-DC:  the decryption side holds a valid seed of the same true chain covering (l1,l2)
      H5  get_kek (C03):  kek_d = KDF(h, L2K(true chain; kid.l0, kid.l1, kid.l2), label, kid.key_info, 32)
      H6  _decrypt_blob (C04):  result = GCMDEC(KWU(kek_d, enc_cek), nonce from the parameters, enc_content) when both verify
      A-KW, A-GCM: functional inverses.
    Public-key mode replaces H1/H5 by new_kek / get_kek public-key postconditions and lemma kek_agree (C03)."""
    from .c_kek import kdf_value, lit
    from .externs_crypto import GCMDEC, GCMENC, GCMOK, KW, KWOK, KWU
    from .spec import L2K, LABEL

    h = z3.Const("h", Ref)
    base, g = fresh_bytes("true_base"), fresh_bytes("rkid")
    l0, l1, l2 = z3.Ints("l0 l1 l2")
    cek, nonce, ki, P = (fresh_bytes(n) for n in ("cek", "nonce", "key_info", "P"))
    l2k = L2K(h, base, g, l0, l1, l2)
    c.assume(blen(l2k) == 64)
    key_l2 = fresh_bytes("protect_side_l2_key")
    c.assume(key_l2 == l2k)  # H2
    kek_e = kdf_value(c, h, atom(key_l2), lit(c, LABEL), atom(ki), 32)  # H1
    enc_cek = KW(R.to_term(c.ctx, kek_e.rope), cek)
    enc_content = GCMENC(cek, nonce, P)
    # H3: the decoded blob has the same fields; H4+H5: the decryption side derives the KEK from the same chain value
    kek_d = kdf_value(c, h, atom(l2k), lit(c, LABEL), atom(ki), 32)
    c.prove("both-sides-hold-the-same-kek", c.eq(kek_e, kek_d))
    kd = R.to_term(c.ctx, kek_d.rope)
    c.prove("unwrap-verifies-and-returns-the-cek", z3.And(KWOK(kd, enc_cek), KWU(kd, enc_cek) == cek))
    c.prove("gcm-verifies-and-returns-the-plaintext", z3.And(GCMOK(KWU(kd, enc_cek), nonce, enc_content), GCMDEC(KWU(kd, enc_cek), nonce, enc_content) == P))  # H6
