"""Contracts for dpapi_ng._dns (C20): SRV query name and best-record selection."""
import z3

from pyvc.builtins import fresh_index
from pyvc.contracts import T
from pyvc.smt import Ref, Str, Z, fresh_int, str_lit
from pyvc.values import STRCAT, SList, SObj, SStr

from . import REG
from .externs import NAME_STR, SRV_ELEM, SRV_PORT, SRV_PRIO, SRV_TARGET, SRV_WEIGHT, srv_answer

RSTRIP_DOT = z3.Function("RSTRIP_2e", Str, Str)  # s.rstrip(".") (the model of str.rstrip on symbolic text)


def conv(I, ans_term, j):
    """The record the property asks for from answer[j]: target without trailing dots, numbers unchanged."""
    e = SRV_ELEM(ans_term, Z(j))
    cls = I.P.find_class("SrvRecord")
    return SObj(cls, {"target": SStr(RSTRIP_DOT(NAME_STR(SRV_TARGET(e)))), "port": SRV_PORT(e), "weight": SRV_WEIGHT(e), "priority": SRV_PRIO(e)})


def elementwise(I, lst, f):
    """lst[j] == f(j) for an arbitrary index j of the list (fresh, hence universally quantified when proved)."""
    if not isinstance(lst, SList):
        return I._and([I.eq(x, f(k)) for k, x in enumerate(lst)])
    j = fresh_index(I, lst.length, "elt_j")
    return I.eq(lst.elem(j), f(j))


def lex_le(p1, w1, p2, w2):
    """(p1, -w1) <= (p2, -w2) lexicographically: lower priority first, then higher weight."""
    return z3.Or(p1 < p2, z3.And(p1 == p2, w1 >= w2))


def best_for(c, t, n, r):
    """r is the conversion of some record j of answer t (length n)."""
    I = c.I
    j = z3.Int("wit!j")
    e = SRV_ELEM(t, j)
    f = r.fields
    # name the result's fields by ground terms so that E-matching can find the witness index
    c.assume(fresh_int("res_port") == Z(f["port"]))
    is_conv = z3.And(
        j >= 0, j < Z(n),
        I.str_term(f["target"]) == RSTRIP_DOT(NAME_STR(SRV_TARGET(e))),
        Z(f["port"]) == SRV_PORT(e), Z(f["weight"]) == SRV_WEIGHT(e), Z(f["priority"]) == SRV_PRIO(e),
    )
    return z3.Exists([j], is_conv, patterns=[SRV_ELEM(t, j)])


def minimal_for(c, t, n, r):
    """r is minimal for (priority, -weight) among all records of answer t (i arbitrary)."""
    i = fresh_index(c.I, n, "any_i")
    e = SRV_ELEM(t, i)
    return lex_le(Z(r.fields["priority"]), Z(r.fields["weight"]), SRV_PRIO(e), SRV_WEIGHT(e))


@REG.contract("dpapi_ng._dns._get_highest_answer", props=["C20"])
def get_highest_answer(c):
    I = c.I
    if c.verifying:
        t = z3.Const("answer", Ref)
        n = z3.Int("answer_len")
        ans = srv_answer(I, t, n)
        ans.term = t
        c.args["answer"] = ans
    else:
        ans = c.param("answer")
        t = getattr(ans, "term", None)
        n = ans.length if isinstance(ans, SList) else None
        if t is None:
            c.requires(False, "answer-is-an-srv-answer")
            return
    c.requires(Z(n) >= 1, "non-empty")
    c.raises_only(set())

    best = lambda r: best_for(c, t, n, r)  # noqa: E731
    minimal = lambda r: minimal_for(c, t, n, r)  # noqa: E731

    if c.verifying:
        c.ensures("is-a-converted-record", best)
        c.ensures("lowest-priority-then-highest-weight", minimal)
        c.loop(
            0,
            invariant=lambda s: [Z(s.answers.length if isinstance(s.answers, SList) else len(s.answers)) == Z(s._i), elementwise(I, s.answers, lambda j: conv(I, t, j))],
            havoc={"answers": lambda I_, cur, s: SList(s._i, lambda j: conv(I_, t, j))},
        )
    else:
        # summary for callers: a fresh record with exactly these two properties
        cls = I.P.find_class("SrvRecord")
        from pyvc.smt import fresh_str

        r = SObj(cls, {"target": SStr(fresh_str("best_target")), "port": fresh_int("best_port"), "weight": fresh_int("best_weight"), "priority": fresh_int("best_prio")})
        c.returns(r)
        c.assume(best(r))
        a = z3.Int("q!i")
        e = SRV_ELEM(t, a)
        c.assume(z3.ForAll([a], z3.Implies(z3.And(a >= 0, a < Z(n)), lex_le(Z(r.fields["priority"]), Z(r.fields["weight"]), SRV_PRIO(e), SRV_WEIGHT(e))), patterns=[SRV_ELEM(t, a)]))


def _lookup(flavour):
    def spec(c):
        I = c.I
        dom = c.param("domain_name", T.opt(T.Str))
        c.raises("dns.exception.DNSException", when=None)
        c.raises_only({"dns.exception.DNSException"})

        def query_ok():
            ev = [d for k, d in c.ctx.trace if k == "resolve"]
            if len(ev) != 1:
                return False
            d = ev[0]
            if dom is None:
                want = "_ldap._tcp.dc._msdcs"
                name_ok = I.eq(d["qname"], want)
            else:
                # a given (non-empty) domain: "_ldap._tcp.dc._msdcs." + domain ; an empty string counts as not given
                want = SStr(STRCAT(str_lit("_ldap._tcp.dc._msdcs."), dom.term))
                from pyvc.interp import STRLEN

                name_ok = z3.If(STRLEN(dom.term) != 0, Z(I.eq(d["qname"], want)), Z(I.eq(d["qname"], "_ldap._tcp.dc._msdcs")))
            return [d["flavour"] == flavour, name_ok, I.eq(d["rdtype"], "SRV"), d["search"] is True, d["extra"] == [], d["nargs"] == 2]

        c.post("query-name-type-and-search-list", query_ok)

        def answer():
            ev = [d for k, d in c.ctx.trace if k == "answer"]
            return ev[0] if len(ev) == 1 else None

        def is_record(r):
            a = answer()
            if not (isinstance(r, SObj) and r.cls.name == "SrvRecord") or a is None:
                return False
            return best_for(c, a["term"], a["n"], r)

        def is_best(r):
            a = answer()
            if not (isinstance(r, SObj) and r.cls.name == "SrvRecord") or a is None:
                return False
            return minimal_for(c, a["term"], a["n"], r)

        c.ensures("returns-a-converted-record-of-the-answer", is_record)
        c.ensures("lowest-priority-then-highest-weight", is_best)

    return spec


REG.contract("dpapi_ng._dns.lookup_dc", props=["C20"])(_lookup("sync"))
REG.contract("dpapi_ng._dns.async_lookup_dc", props=["C20"])(_lookup("async"))
