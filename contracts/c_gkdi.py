"""Contracts for dpapi_ng._crypto.kdf and the MS-GKDI key derivation in dpapi_ng._gkdi (C02, C05)."""
import z3

from pyvc import rope as R
from pyvc.contracts import T
from pyvc.smt import Z, blen, fresh_bytes
from pyvc.values import SBytes, SRef

from . import REG
from .externs import kdf_term
from .spec import L1K, L2K, LABEL, base_of, covers, in32, in_range

ALLOWED_HASH = T.ref("HashAlgorithm")


def envelope(**over):
    """A symbolic GroupKeyEnvelope (all 32-bit header fields as integers, names and blobs opaque)."""
    f = dict(
        version=T.int(0, 2**32 - 1),
        flags=T.int(0, 2**32 - 1),
        l0=T.Int,
        l1=T.Int,
        l2=T.Int,
        root_key_identifier=T.UUID,
        kdf_algorithm=T.Str,
        kdf_parameters=T.Bytes,
        secret_algorithm=T.Str,
        secret_parameters=T.Bytes,
        private_key_length=T.int(0, 2**32 - 1),
        public_key_length=T.int(0, 2**32 - 1),
        domain_name=T.Str,
        forest_name=T.Str,
        l1_key=T.Bytes,
        l2_key=T.Bytes,
    )
    f.update(over)
    return T.obj("GroupKeyEnvelope", **f)


def valid_seed(I, alg_t, rk, base_t):
    """ValidSeed (MS-GKDI 2.2.4): the envelope carries the keys the spec prescribes for its position."""
    g_t = R.to_term(I.ctx, rk.fields["root_key_identifier"].rope)
    l0, l1, l2 = (Z(rk.fields[k]) for k in ("l0", "l1", "l2"))
    k1 = R.to_term(I.ctx, I.rope_of(rk.fields["l1_key"]))
    k2 = R.to_term(I.ctx, I.rope_of(rk.fields["l2_key"]))
    return z3.And(
        in32(l0),
        in_range(l1, l2),
        z3.Implies(l2 == 31, k1 == L1K(alg_t, base_t, g_t, l0, l1)),
        z3.Implies(l2 != 31, z3.And(k2 == L2K(alg_t, base_t, g_t, l0, l1, l2), z3.Implies(l1 > 0, k1 == L1K(alg_t, base_t, g_t, l0, l1 - 1)))),
    )


def atom(term):
    return SBytes(R.Rope([R.full_atom(term)]))


# ------------------------------------------------------------------------------------------------ kdf
@REG.contract("dpapi_ng._crypto.kdf", props=["C02", "C03"])
def kdf(c):
    alg = c.param("algorithm", ALLOWED_HASH)
    secret = c.param("secret", T.Bytes)
    label = c.param("label", T.Bytes)
    context = c.param("context", T.Bytes)
    length = c.param("length", T.int(1, 4096))
    if not isinstance(alg, SRef):
        c.requires(False, "algorithm-is-hash-object")
        return
    term = kdf_term(c.I, alg.term, c.I.rope_of(secret), c.I.rope_of(label), c.I.rope_of(context), length)
    c.assume(blen(term) == Z(length))
    c.returns(atom(term))
    c.raises_only(set())
    c.effect(lambda: c.ctx.tick("kdf_calls"))
    c.effect(lambda: c.ctx.event("kdf", term=term))
    c.ghost_bound("kdf_calls", 1) if c.verifying else None


# ------------------------------------------------------------------------------------------------ context
@REG.contract("dpapi_ng._gkdi.compute_kdf_context", props=["C02", "C05"])
def compute_kdf_context(c):
    g = c.param("key_guid", T.UUID)
    l0 = c.param("l0", T.Int)
    l1 = c.param("l1", T.Int)
    l2 = c.param("l2", T.Int)
    ok = z3.And(in32(l0), in32(l1), in32(l2))
    c.raises("ValueError", when=z3.Not(ok))
    c.raises_only({"ValueError"})
    # MS-GKDI 3.1.4.1.2: RKID || L0 || L1 || L2, the three indexes as 32-bit little-endian (signed) integers
    c.returns(c.rope(g, c.le(l0, 4), c.le(l1, 4), c.le(l2, 4)))


# ------------------------------------------------------------------------------------------------ L1 seed
@REG.contract("dpapi_ng._gkdi.compute_l1_key", props=["C02"])
def compute_l1_key(c):
    sd = c.param("target_sd", T.Bytes)
    g = c.param("root_key_id", T.UUID)
    l0 = c.param("l0", T.Int)
    root = c.param("root_key", T.Bytes)
    alg = c.param("algorithm", ALLOWED_HASH)
    c.raises("ValueError", when=z3.Not(in32(l0)))
    c.raises_only({"ValueError"})
    I = c.I
    base = base_of(alg.term, R.to_term(I.ctx, I.rope_of(root)), R.to_term(I.ctx, g.rope), l0, R.to_term(I.ctx, I.rope_of(sd)))
    c.assume(blen(base) == 64)
    c.returns(atom(base))
    c.ghost_bound("kdf_calls", 2)


# ------------------------------------------------------------------------------------------------ L2 key
@REG.contract("dpapi_ng._gkdi.compute_l2_key", props=["C02", "C05"])
def compute_l2_key(c):
    I = c.I
    alg = c.param("algorithm", ALLOWED_HASH)
    r1 = c.param("request_l1", T.Int)
    r2 = c.param("request_l2", T.Int)
    rk = c.param("rk", envelope())
    if c.verifying:
        base = fresh_bytes("base")
        rk.ghost["base"] = base
    else:
        base = rk.ghost.get("base")
    if base is None:
        c.requires(False, "valid-seed.ghost-base")  # the caller has not established which chain the envelope belongs to
        return
    c.requires(valid_seed(I, alg.term, rk, base), "valid-seed")
    g_t = R.to_term(I.ctx, rk.fields["root_key_identifier"].rope)
    l0 = Z(rk.fields["l0"])
    p1, p2 = Z(rk.fields["l1"]), Z(rk.fields["l2"])
    ok = z3.And(in_range(r1, r2), covers(p1, p2, r1, r2))
    # C02: the derived key equals the chain value; otherwise an error, never a wrong key or a loop
    want = L2K(alg.term, base, g_t, l0, Z(r1), Z(r2))
    c.assume(blen(want) == 64)
    c.returns(atom(want))
    c.raises("ValueError", when=z3.Not(ok))
    c.raises_only({"ValueError"})
    c.ghost_bound("kdf_calls", 63)
    if c.verifying:
        A = alg.term

        reseed = z3.Or(p2 == 31, p1 != Z(r1))  # the L2 chain is restarted from an L1 key

        def inv0(s):
            return [
                Z(r1) <= Z(s.l1),
                Z(s.l1) <= p1,
                Z(s.l1) >= 0,
                Z(s.reseed_l2) == reseed,
                z3.Implies(reseed, Z(c.eq(s.l1_key, atom(L1K(A, base, g_t, l0, Z(s.l1)))))),
                Z(s.kdf_calls) <= 31 - Z(s.l1),
                Z(s.kdf_calls) >= 0,
            ]

        c.loop(0, invariant=inv0, variant=lambda s: Z(s.l1) - Z(r1))

        def inv1(s):
            return [
                Z(r2) <= Z(s.l2),
                Z(s.l2) <= 31,
                c.eq(s.l2_key, atom(L2K(A, base, g_t, l0, Z(r1), Z(s.l2)))),
                Z(s.kdf_calls) <= 32 + (31 - Z(s.l2)),
                Z(s.kdf_calls) >= 0,
            ]

        c.loop(1, invariant=inv1, variant=lambda s: Z(s.l2) - Z(r2))
