"""G7: conformance of call-site summaries with the real code (bounded test, not a proof).

Modular verification trusts, at every call site, the callee's SUMMARY (the call-mode branch of its contract). Where that branch is
written separately from the clauses proved in verify mode, nothing mechanical ties the two together. This test does, on inputs:
for every case of the G3 corpus whose function has a summary that applies to OPAQUE bytes, the argument is handed to the summary as
an opaque byte string constrained to equal the concrete input, every outcome the summary allows is enumerated, and the outcome
CPython produced on the real code must be among them:
  - CPython raised E            -> some summary path raises a type E is an instance of;
  - CPython returned a value V  -> some summary path returns a symbolic value R with  facts(R) and R == V  satisfiable.
A summary that promises too much (a range that real results leave, an exception it forgot) fails here. Exit 3 on a miss.

usage: python3-vt -m selftest.summaries [--repo DIR] [--jobs N]"""
import argparse
import json
import multiprocessing
import os
import subprocess
import sys
import time

HERE = os.path.dirname(os.path.dirname(os.path.abspath(__file__)))
sys.path.insert(0, HERE)

_G = {}


def _init(repo):
    from pyvc.main import _load

    P, REG = _load(repo)
    _G.update(P=P, REG=REG)


def opaque_arg(I, v):
    """an argument value whose bytes are opaque to structural matching but constrained to equal the concrete input"""
    import z3

    from pyvc import rope as R
    from pyvc.smt import blen, fresh_bytes
    from pyvc.values import SBytes, SUUID

    if isinstance(v, dict):
        t = v["__t__"]
        if t in ("bytes", "memoryview"):
            raw = bytes.fromhex(v["hex"])
            term = fresh_bytes("input")
            lit = R.to_term(I.ctx, R.Rope.lit(raw)) if raw else None
            I.ctx.assume(blen(term) == len(raw))
            if lit is not None:
                I.ctx.assume(term == lit)
            return SBytes(R.Rope([R.full_atom(term)]) if raw else R.Rope(), t)
        if t == "uuid":
            return SUUID(R.Rope.lit(bytes.fromhex(v["hex"])))
        if t == "list":
            return [opaque_arg(I, x) for x in v["items"]]
        if t == "reader":
            from pyvc.values import SObj

            view = opaque_arg(I, {"__t__": "memoryview", "hex": v["hex"]})
            return SObj(_G["P"].find_class("ASN1Reader"), {"_data": view, "_view": view})
    return v


def match(I, r, v):
    """condition (bool or z3) under which the symbolic result r equals the normalised native value v"""
    import z3

    from pyvc import rope as R
    from pyvc.smt import Z
    from pyvc.values import SBytes, SEnum, SList, SObj, SStr, SUUID, SView, Unspecified

    if isinstance(r, Unspecified):
        return True  # the summary makes no claim about this component
    if isinstance(v, dict) and "b" in v:
        if not isinstance(r, (SBytes, SView)):
            return False
        return I.eq(r, SBytes(R.Rope.lit(bytes.fromhex(v["b"]))))
    if isinstance(v, dict) and "uuid" in v:
        return isinstance(r, SUUID) and R.eq(I.ctx, r.rope, R.Rope.lit(bytes.fromhex(v["uuid"])))
    if isinstance(v, dict) and "obj" in v:
        if not isinstance(r, SObj) or r.cls.name != v["obj"]:
            return False
        conj = [match(I, r.fields[k], x) for k, x in v["f"].items() if k in r.fields]
        return I._and(conj)
    if isinstance(v, dict):
        return True  # a value the normaliser does not describe
    if isinstance(v, list):
        if isinstance(r, SList):
            return I._and([Z(r.length) == len(v)] + [match(I, r.elem(i), x) for i, x in enumerate(v)])
        if not isinstance(r, (list, tuple)) or len(r) != len(v):
            return False
        return I._and([match(I, a, b) for a, b in zip(r, v)])
    if isinstance(r, SEnum):
        r = r.value
    if v is None or r is None:
        return v is None and r is None
    if isinstance(v, bool):
        return I.eq(r, v) if not isinstance(r, (SObj, SBytes)) else False
    if isinstance(v, int):
        if isinstance(r, (SObj, SBytes, SStr, str, list, tuple)):
            return False
        return Z(I.as_int(r)) == v
    if isinstance(v, str):
        if not isinstance(r, (str, SStr)):
            return False
        return I.eq(r, v)
    return True


def _one(case):
    import z3

    from pyvc.interp import Interp
    from pyvc.path import PathCtx
    from pyvc.smt import Z
    from pyvc.values import ClassRef, Coro, OutOfReach, PathEnd, PyRaise, SObj

    P, REG = _G["P"], _G["REG"]
    fi = P.find_func(case["function"])
    if fi is None or case.get("then"):
        return {"kind": "skip"}
    spec = REG.contract_for(fi.dotted)
    if spec is None:
        return {"kind": "skip"}
    native = case["native"]
    if native["kind"] == "budget":
        return {"kind": "skip"}
    work = [[]]
    seen = 0
    allowed = []
    used_summary = False
    while work and seen < 200:
        decisions = work.pop()
        seen += 1
        ctx = PathCtx(decisions, axioms=REG.axioms, prove_timeout_ms=3000, feas_timeout_ms=1000)
        I = Interp(P, REG, ctx, top=None)
        args = [opaque_arg(I, a) for a in case["args"]]
        if "." in fi.qualname:
            m = P.method(P.find_class(fi.qualname.split(".")[0]), fi.qualname.split(".")[-1])
            if m is not None and m[1] == "classmethod":
                args = [ClassRef(P.find_class(fi.qualname.split(".")[0]))] + args
        try:
            r = I.call_repo(fi, args, {})
            if isinstance(r, Coro):
                r = r.value
            if fi.dotted in I.contract_calls:
                used_summary = True
            if not ctx.feasible():
                work.extend(ctx.pending)
                continue  # the summary excludes this outcome for this input
            failed_pre = [o.name for o in ctx.obligations if ".pre." in o.name and o.status != "discharged"]
            if failed_pre:
                work.extend(ctx.pending)
                continue  # the summary does not claim anything for this input
            readers = [x for x in args if isinstance(x, SObj) and x.cls.name == "ASN1Reader"]
            if readers:
                r = [r, readers[0].fields["_view"]]  # the value and what the reader has left (as the native side reports it)
            if native["kind"] == "return":
                cond = match(I, r, native["value"])
                if cond is True or (cond is not False and ctx.solver.check(Z(cond), prove=True) != z3.unsat):
                    return {"kind": "ok", "summary": used_summary}
            allowed.append("return")
        except PyRaise as e:
            if fi.dotted in I.contract_calls:
                used_summary = True
            names = [n.split(":")[-1].split(".")[-1] for n in [e.exc.type_name] + list(e.exc.mro)]
            if native["kind"] == "raise" and ctx.feasible() and any(n in native["mro"] for n in names[:1]):
                return {"kind": "ok", "summary": used_summary}
            allowed.append("raise " + names[0])
        except (OutOfReach, PathEnd):
            pass
        except Exception as e:  # noqa
            return {"kind": "engine-error", "why": f"{type(e).__name__}: {e}"[:300]}
        work.extend(ctx.pending)
    if not used_summary:
        return {"kind": "skip"}
    return {"kind": "miss", "allowed": sorted(set(allowed))[:12]}


def conformance(repo, jobs=16, show=10, only=None, functions=None):
    t0 = time.time()
    env = dict(os.environ, PYTHONPATH=os.path.join(repo, "src"), SELFTEST_TESTS=os.path.join(repo, "tests"))
    env.setdefault("VERIF_SEED", "1")
    env.setdefault("SELFTEST_N", "12")
    p = subprocess.run(["/venv/bin/python", os.path.join(HERE, "selftest", "native_cases.py")], env=env, capture_output=True, text=True, timeout=900)
    if p.returncode != 0:
        return {"error": "native corpus generation failed: " + p.stderr[-400:]}
    cases = json.loads(p.stdout)
    if only:
        cases = [c for c in cases if only in c["function"]]
    if functions is not None:
        cases = [c for c in cases if c["function"] in functions]
    workers = max(1, min(jobs, (len(cases) + 24) // 25))  # a worker loads the whole tree and the contracts: not worth it for a handful of cases
    with multiprocessing.get_context("fork").Pool(workers, initializer=_init, initargs=(repo,)) as pool:
        outs = pool.map(_one, cases, chunksize=5)
    per_fn = {}
    bad = []
    for c, o in zip(cases, outs):
        if o["kind"] == "skip":
            continue
        st = per_fn.setdefault(c["function"], {"ok": 0, "miss": 0, "engine-error": 0})
        st[o["kind"]] = st.get(o["kind"], 0) + 1
        if o["kind"] != "ok":
            bad.append({"function": c["function"], "args": c["args"], "cpython": c["native"], "summary": o})
    return {"functions": len(per_fn), "ok": sum(s["ok"] for s in per_fn.values()), "miss": sum(s["miss"] for s in per_fn.values()),
            "engine_errors": sum(s["engine-error"] for s in per_fn.values()), "per_function": per_fn, "examples": bad[:show], "wall_s": round(time.time() - t0, 1)}


def main(argv=None):
    ap = argparse.ArgumentParser()
    ap.add_argument("--repo", default=os.environ.get("PYVC_REPO", "/repo"))
    ap.add_argument("--jobs", type=int, default=16)
    ap.add_argument("--only", default=None)
    args = ap.parse_args(argv)
    res = conformance(args.repo, args.jobs, only=args.only)
    if res.get("error"):
        print("CHECK-ERROR summaries:", res["error"])
        return 3
    for fn in sorted(res["per_function"]):
        print(f"  {fn}: {res['per_function'][fn]}")
    for b in res["examples"]:
        print("MISS", b["function"], json.dumps(b["args"])[:160], "\n    cpython:", json.dumps(b["cpython"])[:300], "\n    summary allows:", json.dumps(b["summary"])[:300])
    print(f"G7 summary conformance: functions={res['functions']} ok={res['ok']} miss={res['miss']} engine_errors={res['engine_errors']} wall={res['wall_s']}s")
    if not args.only:
        json.dump({k: v for k, v in res.items() if k != "examples"}, open(os.path.join(HERE, "selftest", "results", "G7.json"), "w"), indent=1)
    return 3 if res["miss"] or res["engine_errors"] else 0


if __name__ == "__main__":
    sys.exit(main())
