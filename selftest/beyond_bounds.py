"""Bounded stand-ins for the region OUTSIDE the precondition bounds of proved contracts (DESIGN 10.6).

The proofs of C07 (INTEGER content octets <= 8 / 16, OIDs of <= 3 / 4 further arcs, tag numbers < 128**9) and C08 (1..4 / 1..15
sub-authorities) are complete inside those bounds and say nothing outside them. This script runs the REAL functions under
/venv/bin/python (PYTHONPATH=<tree>/src) on a finite family of inputs beyond the bounds and compares with an oracle written here
from X.690 / MS-DTYP (int.to_bytes(signed=True), base-128 digits, struct). BOUNDED: a finite family; reported under
`bounded_standins` in the evidence, never counted in obligations/discharged. A disagreement is a VIOLATION whose replay file
carries the input.

usage: beyond_bounds.py C07|C08     output: JSON list of stand-in records
  {"function", "clause", "bound", "cases", "violations": [{"input":..., "expected":..., "got":...}]}"""
import json
import os
import random
import struct
import sys

rnd = random.Random(int(os.environ.get("VERIF_SEED", "1") or 1))
THOROUGH = os.environ.get("VERIF_TIER") == "thorough"


def der_len(n):
    if n < 128:
        return bytes([n])
    b = n.to_bytes((n.bit_length() + 7) // 8, "big")
    return bytes([0x80 | len(b)]) + b


def b128(n):
    out = [n & 0x7F]
    n >>= 7
    while n:
        out.append(0x80 | (n & 0x7F))
        n >>= 7
    return bytes(reversed(out))


def ident(cls, constructed, num):
    first = (cls << 6) | (0x20 if constructed else 0)
    if num < 31:
        return bytes([first | num])
    return bytes([first | 31]) + b128(num)


def int_content(v):
    n = 1
    while True:
        try:
            return v.to_bytes(n, "big", signed=True)
        except OverflowError:
            n += 1


def outcome(fn, *a):
    try:
        return ("return", fn(*a))
    except BaseException as e:  # noqa
        return ("raise", type(e).__name__)


def show(x):
    if isinstance(x, (bytes, bytearray, memoryview)):
        x = bytes(x)
        return x.hex() if len(x) <= 96 else f"{x[:48].hex()}..({len(x)} bytes)..{x[-16:].hex()}"
    if isinstance(x, int) and abs(x) >= 1 << 128:
        return hex(x)
    if isinstance(x, (tuple, list)):
        return [show(y) for y in x]
    return x if isinstance(x, (int, str, bool, type(None))) else repr(x)


class Rec:
    def __init__(self, function, clause, bound):
        self.d = {"function": function, "clause": clause, "bound": bound, "cases": 0, "violations": []}

    def expect(self, inp, expected, got):
        self.d["cases"] += 1
        if expected != got and len(self.d["violations"]) < 5:
            self.d["violations"].append({"input": show(inp), "expected": show(expected), "got": show(got)})


def c07():
    from dpapi_ng import _asn1 as a

    out = []
    # ---- INTEGER beyond 16 content octets
    maxbits = 4096 if THOROUGH else 2048
    vals = set()
    for k in range(127, maxbits + 1, 1 if THOROUGH else 3):
        for s in (1, -1):
            for d in (-1, 0, 1):
                vals.add(s * (1 << k) + d)
    for _ in range(600 if THOROUGH else 150):
        w = rnd.randrange(17, 520)
        vals.add(rnd.getrandbits(8 * w) - (1 << (8 * w - 1)))
        vals.add(-(1 << (8 * w - 1)))  # most negative value of the width
        vals.add((1 << (8 * w - 1)) - 1)
        vals.add(-(1 << (8 * w - 1)) - 1)
    rp = Rec("dpapi_ng._asn1._pack_asn1_integer", "minimal two's complement INTEGER beyond the proved width",
             f"|v| up to 2**{maxbits}: 2**k+-1 and random values of 17..520 octets; oracle int.to_bytes(signed=True)")
    rr = Rec("dpapi_ng._asn1._read_asn1_integer", "INTEGER decodes to the value and consumes exactly the encoding, beyond the proved width", rp.d["bound"])
    for v in sorted(vals):
        content = int_content(v)
        if len(content) <= 16:
            continue
        enc = b"\x02" + der_len(len(content)) + content
        rp.expect(v, ("return", enc), outcome(a._pack_asn1_integer, v))
        rest = bytes(rnd.getrandbits(8) for _ in range(rnd.randrange(0, 4)))
        rr.expect(enc + rest, ("return", (v, len(enc))), outcome(a._read_asn1_integer, enc + rest))
    out += [rp.d, rr.d]
    # ---- OBJECT IDENTIFIER beyond 4 further arcs / beyond 2**63
    rp = Rec("dpapi_ng._asn1._pack_asn1_object_identifier", "OID encoding beyond the proved shape",
             "5..60 further arcs with arcs up to 2**300 (the value 0 included); oracle base-128 digits")
    rr = Rec("dpapi_ng._asn1._read_asn1_object_identifier", "OID decodes to the dotted string and consumes exactly the encoding, beyond the proved shape", rp.d["bound"])
    for _ in range(1500 if THOROUGH else 400):
        first = rnd.choice((0, 1, 2))
        second = rnd.randrange(0, 40)
        n = rnd.randrange(5, 61)
        arcs = [rnd.choice((0, 1, 127, 128, 16383, 16384, (1 << 63) - 1, 1 << 63, rnd.getrandbits(rnd.randrange(1, 301)))) for _ in range(n)]
        oid = ".".join(str(x) for x in [first, second] + arcs)
        content = bytes([first * 40 + second]) + b"".join(b128(x) for x in arcs)
        enc = b"\x06" + der_len(len(content)) + content
        rp.expect(oid, ("return", enc), outcome(a._pack_asn1_object_identifier, oid))
        rr.expect(enc, ("return", (oid, len(enc))), outcome(a._read_asn1_object_identifier, enc))
    out += [rp.d, rr.d]
    # ---- high tag numbers beyond 128**9 and long-form lengths at the octet boundaries
    rp = Rec("dpapi_ng._asn1._pack_asn1", "identifier and length octets beyond the proved tag width; long-form lengths at 2**8, 2**16, 2**24",
             "tag numbers up to 2**200, every class, both P/C; content lengths {127,128,255,256,65535,65536,2**24-1,2**24,2**24+1}")
    rr = Rec("dpapi_ng._asn1._read_asn1_header", "header fields equal what was encoded, beyond the proved tag width", rp.d["bound"])
    lens = [0, 1, 127, 128, 255, 256, 65535, 65536] + ([2**24 - 1, 2**24, 2**24 + 1] if THOROUGH else [2**24])
    blob = bytes(2**24 + 1)
    for cls in range(1, 4):  # UNIVERSAL tag numbers are the TypeTagNumber enumeration (all < 31): nothing beyond the bound there
        for constructed in (False, True):
            nums = [128**9 - 1, 128**9, 128**9 + 1, 1 << 64, (1 << 200) - 1] + [rnd.getrandbits(rnd.randrange(64, 201)) | (1 << 63) for _ in range(6)]
            nums += [0, 30, 31, 127, 128]
            for num in nums:
                for ln in (lens if num == nums[0] else lens[:6]):
                    data = memoryview(blob)[:ln]
                    enc_h = ident(cls, constructed, num) + der_len(ln)
                    got = outcome(a._pack_asn1, a.TagClass(cls), constructed, num, data)
                    if got[0] == "return":
                        got = ("return", bytes(got[1][: len(enc_h)]), len(got[1]), bytes(got[1][len(enc_h):]) == bytes(data))
                    rp.expect((cls, constructed, num, ln), ("return", enc_h, len(enc_h) + ln, True), got)
                    g2 = outcome(a._read_asn1_header, enc_h + bytes(data[:3]))
                    if g2[0] == "return":
                        h = g2[1]
                        g2 = ("return", int(h.tag.tag_class), int(h.tag.tag_number), bool(h.tag.is_constructed), h.tag_length, h.length)
                    rr.expect(enc_h, ("return", cls, num, constructed, len(enc_h), ln), g2)
    out += [rp.d, rr.d]
    return out


def c08():
    from dpapi_ng import _security_descriptor as sd

    def sid_bytes(rev, auth, subs):
        return bytes([rev, len(subs)]) + auth.to_bytes(6, "big") + b"".join(struct.pack("<I", s) for s in subs)

    r = Rec("dpapi_ng._security_descriptor.sid_to_bytes", "binary SID layout beyond the sub-authority counts of the quick-tier case split",
            "1..15 sub-authorities (and 0 / 16 rejected), revision 0..9, authority below and at 2**48, sub-authorities at 0, 2**32-1, 2**32; oracle struct/MS-DTYP 2.4.2.2")
    edge = [0, 1, 21, 2**31, 2**32 - 1]
    for n in range(0, 18):
        for _ in range(40 if THOROUGH else 12):
            rev = rnd.randrange(0, 10)
            auth = rnd.choice((0, 1, 5, 2**32, 2**48 - 1, 2**48, rnd.getrandbits(48)))
            subs = [rnd.choice(edge + [rnd.getrandbits(32), 2**32]) for _ in range(n)]
            s = "S-" + "-".join(str(x) for x in [rev, auth] + subs)
            if n < 1 or n > 15 or auth >= 2**48 or any(x >= 2**32 for x in subs):
                exp = ("raise", "ValueError")
            else:
                exp = ("return", sid_bytes(rev, auth, subs))
            r.expect(s, exp, outcome(sd.sid_to_bytes, s))
    return [r.d]


if __name__ == "__main__":
    print(json.dumps({"C07": c07, "C08": c08}[sys.argv[1]]()))
