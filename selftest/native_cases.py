"""G3, native half (runs under /venv/bin/python with PYTHONPATH=<tree>/src): builds the input corpus for the engine
cross-check and records what CPython does with each input. Output: JSON list on stdout.

Corpus per decoder: the repo's captured test vectors, pack() results of random well-formed objects, and for each of those
truncations, single-byte corruptions and extensions; plus purely random byte strings. Encoders and arithmetic helpers get edge
and random scalar arguments. Deterministic in VERIF_SEED."""
import dataclasses
import enum
import glob
import json
import os
import random
import sys
import uuid

SEED = int(os.environ.get("VERIF_SEED", "1"))
N = int(os.environ.get("SELFTEST_N", "40"))
rnd = random.Random(SEED)


def norm(v, depth=0):
    if depth > 8:
        return "<deep>"
    if isinstance(v, (bytes, bytearray, memoryview)):
        return {"b": bytes(v).hex()}
    if isinstance(v, enum.Enum):
        return norm(v.value, depth + 1)
    if isinstance(v, bool) or v is None or isinstance(v, (int, str)):
        return v
    if isinstance(v, uuid.UUID):
        return {"uuid": v.bytes_le.hex()}
    if dataclasses.is_dataclass(v) and not isinstance(v, type):
        return {"obj": type(v).__name__, "f": {f.name: norm(getattr(v, f.name), depth + 1) for f in dataclasses.fields(v)}}
    if isinstance(v, tuple) and hasattr(v, "_fields"):
        return {"obj": type(v).__name__, "f": {k: norm(getattr(v, k), depth + 1) for k in v._fields}}
    if isinstance(v, (list, tuple)):
        return [norm(x, depth + 1) for x in v]
    return {"other": type(v).__name__}


class ReaderArg:
    """an ASN1Reader positioned at the start of `data` (built afresh on each side)"""

    def __init__(self, data):
        self.data = bytes(data)


def enc(v):
    if isinstance(v, ReaderArg):
        return {"__t__": "reader", "hex": v.data.hex()}
    if isinstance(v, (bytes, bytearray)):
        return {"__t__": "bytes", "hex": bytes(v).hex()}
    if isinstance(v, memoryview):
        return {"__t__": "memoryview", "hex": bytes(v).hex()}
    if isinstance(v, uuid.UUID):
        return {"__t__": "uuid", "hex": v.bytes_le.hex()}
    if isinstance(v, list):
        return {"__t__": "list", "items": [enc(x) for x in v]}
    if v is None or isinstance(v, (bool, int, str)):
        return v
    raise TypeError(type(v))


def resolve(dotted):
    import importlib

    parts = dotted.split(".")
    for i in range(len(parts), 0, -1):
        try:
            obj = importlib.import_module(".".join(parts[:i]))
            break
        except ImportError:
            continue
    for p in parts[i:]:
        obj = getattr(obj, p)
    return obj


def observe(dotted, args, then=None):
    fn = resolve(dotted)
    readers = []
    if any(isinstance(a, ReaderArg) for a in args):
        from dpapi_ng._asn1 import ASN1Reader

        args = [ASN1Reader(a.data) if isinstance(a, ReaderArg) else a for a in args]
        readers = [a for a in args if isinstance(a, ASN1Reader)]
    count = [0]

    class Budget(BaseException):
        pass

    def tracer(frame, event, arg):
        if event == "line":
            count[0] += 1
            if count[0] > 200000:
                raise Budget()
        return tracer

    try:
        sys.settrace(tracer)
        try:
            r = fn(*args)
            if then:
                r = getattr(r, then)()
        finally:
            sys.settrace(None)
        out = {"kind": "return", "value": norm(r)}
        if readers:
            out["value"] = [out["value"], {"b": bytes(readers[0]._view).hex()}]  # the value and what the reader has left
        return out
    except Budget:
        return {"kind": "budget"}
    except BaseException as e:  # noqa
        return {"kind": "raise", "type": type(e).__name__, "mro": [c.__name__ for c in type(e).__mro__]}


def variants(data: bytes, k=6):
    out = [data]
    n = len(data)
    for _ in range(k):
        if n:
            out.append(data[: rnd.randrange(n)])
            b = bytearray(data)
            i = rnd.randrange(n)
            b[i] = rnd.randrange(256)
            out.append(bytes(b))
            b = bytearray(data)
            i = rnd.randrange(n)
            b[i] ^= 1 << rnd.randrange(8)
            out.append(bytes(b))
    out.append(data + bytes(rnd.randrange(256) for _ in range(rnd.randrange(1, 9))))
    return out


def rbytes(lo=0, hi=40):
    return bytes(rnd.randrange(256) for _ in range(rnd.randrange(lo, hi + 1)))


def main():
    root = os.environ["SELFTEST_TESTS"]  # <tree>/tests
    from dpapi_ng import _asn1 as a
    from dpapi_ng import _blob, _epm, _gkdi, _pkcs7
    from dpapi_ng import _security_descriptor as sd
    from dpapi_ng._rpc import _bind, _pdu, _request, _verification

    cases = []

    def add(dotted, *args, then=None):
        native = observe(dotted, list(args), then)
        if len(json.dumps(native)) > 200000:
            return  # e.g. re-packing a key whose corrupted length field is 2**30: a gigabyte of zeros is not a useful test case
        cases.append({"function": dotted, "args": [enc(x) for x in args], "then": then, "native": native})

    def vectors(sub):
        out = []
        for p in sorted(glob.glob(os.path.join(root, "data", sub, "*")) + glob.glob(os.path.join(root, "data", sub))):
            if os.path.isfile(p):
                raw = open(p, "rb").read()
                try:
                    import base64

                    out.append(base64.b64decode(raw.strip(), validate=True))
                except Exception:
                    out.append(raw)
        return out

    # ---------------------------------------------------------------- ASN.1 encoders / decoders
    ints = [0, 1, -1, 127, 128, -128, -129, 255, 256, -256, -65536, 65535, 2**31, -(2**31), 2**63 - 1, -(2**63), 2**64, 2**100] + [rnd.randrange(-(2**70), 2**70) for _ in range(N)]
    for v in ints:
        add("dpapi_ng._asn1._pack_asn1_integer", v)
        try:
            e = bytes(a._pack_asn1_integer(v))
            for d in variants(e, 2):
                add("dpapi_ng._asn1._read_asn1_integer", d)
        except Exception:
            pass
    oids = ["1.2.840.113549.1.7.3", "2.16.840.1.101.3.4.1.46", "1.3.6.1.4.1.311.74.1", "0.0", "1.39", "2.5", "2.39", "2.40", "1.2.3.4.5.6.7.8.9.10.11", "1.2.99999999999999999999", "1", "", "a.b", "1..2", "3.1"]
    for o in oids:
        add("dpapi_ng._asn1._pack_asn1_object_identifier", o)
        try:
            e = bytes(a._pack_asn1_object_identifier(o))
            for d in variants(e, 2):
                add("dpapi_ng._asn1._read_asn1_object_identifier", d)
        except Exception:
            pass
    for fn in ("_read_asn1_header", "_read_asn1_integer", "_read_asn1_object_identifier", "_read_asn1_octet_string", "_read_asn1_utf8_string", "_read_asn1_boolean",
               "_read_asn1_enumerated", "_read_asn1_sequence", "_read_asn1_set", "_read_asn1_generalized_time"):
        for _ in range(N):
            add(f"dpapi_ng._asn1.{fn}", rbytes(0, 12))
        for head in (b"\x02", b"\x06", b"\x04", b"\x0c", b"\x01", b"\x0a", b"\x30", b"\x31", b"\x18", b"\x1f\x81\x01", b"\xbf\x7f", b"\x9f\xff\xff"):
            for ln in (b"\x00", b"\x01", b"\x03", b"\x7f", b"\x80", b"\x81\x01", b"\x81\x80", b"\x82\x00\x02", b"\x85\x00\x00\x00\x00\x02", b"\x88" + b"\xff" * 8, b"\xff" + b"\x00" * 126 + b"\x01"):
                add(f"dpapi_ng._asn1.{fn}", head + ln + rbytes(0, 6))
    for s in (b"", b"abc", b"\xff\xfe", "héllo".encode(), rbytes(0, 200)):
        add("dpapi_ng._asn1._pack_asn1_octet_string", s)
    for v in (True, False):
        add("dpapi_ng._asn1._pack_asn1_boolean", v)
    for n_ in (0, 1, 127, 128, 16383, 16384, 2**32, 2**63 - 1) + tuple(rnd.randrange(2**40) for _ in range(8)):
        add("dpapi_ng._asn1._pack_asn1_octet_number", n_)
        for d in variants(bytes(a._pack_asn1_octet_number(n_)), 1):
            add("dpapi_ng._asn1._unpack_asn1_octet_number", memoryview(d))

    # ---------------------------------------------------------------- blob / CMS / MS-GKDI decoders on vectors, variants and noise
    def decoder(dotted, seeds, k=4, noise=N, repack=True):
        for s in seeds:
            for d in variants(s, k):
                add(dotted, d)
                if repack:
                    add(dotted, d, then="pack")  # decode, then re-encode with the decoded object's own pack()
        for _ in range(noise):
            add(dotted, rbytes(0, 80))

    blobs = vectors("dpapi_ng_blob")
    decoder("dpapi_ng._blob.DPAPINGBlob.unpack", blobs[:6], k=5, noise=10)
    decoder("dpapi_ng._pkcs7.ContentInfo.unpack", blobs[:3], k=4, noise=10, repack=False)
    envs = []
    for b in blobs[:3]:
        try:
            envs.append(bytes(_pkcs7.ContentInfo.unpack(b).content))
        except Exception:
            pass
    decoder("dpapi_ng._pkcs7.EnvelopedData.unpack", envs, k=5, noise=10, repack=False)
    # structure parsers that take a reader: the SEQUENCE / [2] element they expect, cut out of the captured blobs
    def reader_cases(dotted, seeds, k=4, noise=8):
        for s in seeds:
            for d in variants(s, k):
                add(dotted, ReaderArg(d))
        for _ in range(noise):
            add(dotted, ReaderArg(rbytes(0, 60)))

    ris, algs, ecis, kekids = [], [], [], []
    for e in envs:
        try:
            rd = a.ASN1Reader(e).read_sequence()
            rd.read_integer()
            set_rd = rd.read_set_of()
            ris.append(bytes(set_rd._view))
            ecis.append(bytes(rd._view))
            ri = a.ASN1Reader(bytes(set_rd._view)).read_sequence(tag=a.ASN1Tag(a.TagClass.CONTEXT_SPECIFIC, 2, True))
            ri.read_integer()
            kekids.append(bytes(ri._view))
            _pkcs7.KEKIdentifier.unpack(ri)
            algs.append(bytes(ri._view))
        except Exception as ex:
            sys.stderr.write(f"reader seeds: {type(ex).__name__}: {ex}\n")
    reader_cases("dpapi_ng._pkcs7.RecipientInfo.unpack", ris[:2])
    reader_cases("dpapi_ng._pkcs7.KEKIdentifier.unpack", kekids[:2])
    reader_cases("dpapi_ng._pkcs7.AlgorithmIdentifier.unpack", algs[:2])
    reader_cases("dpapi_ng._pkcs7.EncryptedContentInfo.unpack", ecis[:2])
    kids = []
    for b in blobs:
        try:
            kids.append(_blob.DPAPINGBlob.unpack(b).key_identifier.pack())
        except Exception:
            pass
    decoder("dpapi_ng._blob.KeyIdentifier.unpack", kids[:4])
    pds = [_blob.SIDDescriptor(s).pack() for s in ("S-1-5-21-1-2-3-1104", "S-1-1-0", "")]
    decoder("dpapi_ng._blob.ProtectionDescriptor.unpack", pds)
    decoder("dpapi_ng._gkdi.GroupKeyEnvelope.unpack", vectors("group_key_envelope")[:4], k=5)
    decoder("dpapi_ng._gkdi.FFCDHKey.unpack", vectors("ffc_dh_key")[:2], k=3)
    decoder("dpapi_ng._gkdi.FFCDHParameters.unpack", vectors("ffc_dh_parameters")[:2], k=3)
    decoder("dpapi_ng._gkdi.ECDHKey.unpack", vectors("ecdh_key")[:3], k=3)
    kp = [_gkdi.KDFParameters(h).pack() for h in ("SHA1", "SHA256", "SHA384", "SHA512", "", "MD5")]
    decoder("dpapi_ng._gkdi.KDFParameters.unpack", kp, k=2)
    for _ in range(N):
        g = uuid.UUID(bytes=bytes(rnd.randrange(256) for _ in range(16)))
        for trip in ((0, 0, 0), (-1, -1, -1), (2**31 - 1, 31, 31), (2**31, 0, 0), (-(2**31) - 1, 0, 0), tuple(rnd.randrange(-(2**33), 2**33) for _ in range(3))):
            add("dpapi_ng._gkdi.compute_kdf_context", g, *trip)

    # ---------------------------------------------------------------- security descriptors
    sids = ["S-1-5-18", "S-1-1-0", "S-1-5-21-3337337973-1280370897-1140174819-1104", "S-1-5-18\n", "S-1-5-١٨", "S-1-5-4294967295", "S-1-5-4294967296", "S-1-281474976710655-1",
            "S-1-281474976710656-1", "S-1-0", "S-1", "S-2-5-18", "s-1-5-18", "S-1-5-", "S-1-05-18", "S-1-5-18-", " S-1-5-18", "S-1-5-1-2-3-4-5-6-7-8-9-10-11-12-13-14-15",
            "S-1-5-1-2-3-4-5-6-7-8-9-10-11-12-13-14-15-16", "", "S-1-5-" + "9" * 30]
    for s in sids:
        add("dpapi_ng._security_descriptor.sid_to_bytes", s)
        add("dpapi_ng._security_descriptor.ace_to_bytes", s, rnd.choice([0, 2, 3, 2**32 - 1, 2**32, -1]))
    for _ in range(N):
        add("dpapi_ng._security_descriptor.acl_to_bytes", [rbytes(0, 30) for _ in range(rnd.randrange(0, 4))])
    for o in sids[:6] + [None]:
        for g in (sids[0], sids[3], None):
            add("dpapi_ng._security_descriptor.sd_to_bytes", o, g, None, [rbytes(0, 20)] if rnd.random() < 0.5 else None)

    # ---------------------------------------------------------------- DCE/RPC and EPM decoders
    def rpc_seeds():
        import uuid as u

        s = _bind.SyntaxId(u.UUID(int=rnd.getrandbits(128)), 1, 0)
        out = {}
        out["dpapi_ng._rpc._pdu.PDUHeader.unpack"] = [_pdu.PDUHeader(5, 0, _pdu.PacketType.REQUEST, _pdu.PacketFlags.PFC_FIRST_FRAG, _pdu.DataRep(), 100, 16, 7).pack()]
        out["dpapi_ng._rpc._verification.VerificationTrailer.unpack"] = [
            _verification.VerificationTrailer([_verification.CommandPContext(_verification.CommandFlags.SEC_VT_COMMAND_END, s, s)]).pack(),
            _verification.VerificationTrailer([_verification.CommandBitmask(_verification.CommandFlags.NONE, 1), _verification.CommandHeader2(_verification.CommandFlags.SEC_VT_COMMAND_END, 0, _pdu.DataRep(), 1, 2, 3)]).pack(),
        ]
        ctxs = [_bind.ContextElement(0, s, [s]), _bind.ContextElement(1, s, [s, s])]
        st = _pdu.SecTrailer(type=_pdu.SecurityProvider(9), level=_pdu.AuthenticationLevel(6), pad_length=4, context_id=0, auth_value=b"sig" * 5)
        out["dpapi_ng._rpc._pdu.PDU.unpack"] = []
        for cls_, kw in ((_bind.Bind, dict(max_xmit_frag=5840, max_recv_frag=5840, assoc_group=0, contexts=ctxs)),
                         (_bind.AlterContext, dict(max_xmit_frag=5840, max_recv_frag=5840, assoc_group=0, contexts=ctxs)),
                         (_bind.BindAck, dict(max_xmit_frag=5840, max_recv_frag=5840, assoc_group=3, sec_addr="49668", results=[_bind.ContextResult(_bind.ContextResultCode.ACCEPTANCE, 0, s.uuid, 1), _bind.ContextResult(_bind.ContextResultCode.NEGOTIATE_ACK, 3, s.uuid, 0)])),
                         (_bind.BindNak, dict(reject_reason=4, versions=[(5, 0), (5, 1)])),
                         (_request.Request, dict(alloc_hint=8, context_id=0, opnum=3, obj=None, stub_data=b"12345678")),
                         (_request.Response, dict(alloc_hint=8, context_id=0, cancel_count=0, stub_data=b"12345678abcd")),
                         (_pdu.Fault, dict(alloc_hint=0, context_id=0, cancel_count=0, status=5, flags=_pdu.FaultFlags(0), stub_data=b""))):
            for trailer in (None, st):
                try:
                    ptype = {"Bind": "BIND", "AlterContext": "ALTER_CONTEXT", "BindAck": "BIND_ACK", "BindNak": "BIND_NAK", "Request": "REQUEST", "Response": "RESPONSE", "Fault": "FAULT"}[cls_.__name__]
                    hdr = _pdu.PDUHeader(5, 0, _pdu.PacketType[ptype], _pdu.PacketFlags.PFC_FIRST_FRAG | _pdu.PacketFlags.PFC_LAST_FRAG, _pdu.DataRep(), 0, 0, 1)
                    raw = cls_(header=hdr, sec_trailer=trailer, **kw).pack()
                    hdr = dataclasses.replace(hdr, frag_len=len(raw), auth_len=len(trailer.auth_value) if trailer else 0)
                    out["dpapi_ng._rpc._pdu.PDU.unpack"].append(cls_(header=hdr, sec_trailer=trailer, **kw).pack())
                except Exception as e:
                    sys.stderr.write(f"pdu seed {cls_.__name__} skipped: {type(e).__name__}: {e}\n")
        out["dpapi_ng._rpc._pdu.SecTrailer.unpack"] = [st.pack()]
        out["dpapi_ng._epm.Floor.unpack"] = []
        tower = _epm.build_tcpip_tower(s, s, 135, 0)
        for fl in tower:
            out["dpapi_ng._epm.Floor.unpack"].append(fl.pack())
        out["dpapi_ng._epm.EptMap.unpack"] = [_epm.EptMap(obj=None, tower=tower, entry_handle=None, max_towers=4).pack()]
        out["dpapi_ng._epm.EptMapResult.unpack"] = [_epm.EptMapResult(entry_handle=None, towers=[tower, tower[:3]], status=0).pack(), _epm.EptMapResult(entry_handle=(1, u.UUID(int=5)), towers=[], status=0x16C9A0D6).pack()]
        return out

    try:
        seeds = rpc_seeds()
    except Exception as e:  # constructor signatures differ from what this corpus expects: fall back to noise only
        sys.stderr.write(f"rpc seeds skipped: {type(e).__name__}: {e}\n")
        seeds = {k: [] for k in ("dpapi_ng._rpc._pdu.PDU.unpack", "dpapi_ng._rpc._pdu.SecTrailer.unpack", "dpapi_ng._epm.Floor.unpack", "dpapi_ng._rpc._pdu.PDUHeader.unpack", "dpapi_ng._rpc._verification.VerificationTrailer.unpack", "dpapi_ng._epm.EptMap.unpack", "dpapi_ng._epm.EptMapResult.unpack")}
    for dotted, ss in seeds.items():
        decoder(dotted, ss, k=6, noise=N)
    json.dump(cases, sys.stdout)


if __name__ == "__main__":
    main()
