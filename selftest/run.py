"""G3: cross-check of the symbolic executor against CPython.

The executor is run in CONCRETE mode (every value a literal, all repo contracts disabled so that every callee body is
executed by the executor itself) on the corpus produced by selftest/native_cases.py, and its outcome - returned value or the
type of the exception that escapes - is compared with what CPython did on the same input with the same working tree.
A disagreement means the executor's model of Python is wrong somewhere, i.e. proofs produced with it cannot be trusted:
the run exits 3 (CHECK-ERROR), it is never a property verdict.

usage: python3-vt -m selftest.run [--repo DIR] [--jobs N]"""
import argparse
import json
import multiprocessing
import os
import subprocess
import sys
import time

HERE = os.path.dirname(os.path.dirname(os.path.abspath(__file__)))
sys.path.insert(0, HERE)


def to_engine(v):
    from pyvc import rope as R
    from pyvc.values import SBytes, SUUID

    if isinstance(v, dict):
        t = v["__t__"]
        if t in ("bytes", "memoryview"):
            return SBytes(R.Rope.lit(bytes.fromhex(v["hex"])), t)
        if t == "uuid":
            return SUUID(R.Rope.lit(bytes.fromhex(v["hex"])))
        if t == "list":
            return [to_engine(x) for x in v["items"]]
        if t == "reader":
            from pyvc.values import SObj

            view = SBytes(R.Rope.lit(bytes.fromhex(v["hex"])), "memoryview")
            return SObj(_G["P"].find_class("ASN1Reader"), {"_data": view, "_view": view})
    return v


def norm_engine(I, v, depth=0):
    from pyvc.values import SBytes, SEnum, SObj, SUUID, SView

    if depth > 8:
        return "<deep>"
    if isinstance(v, (SBytes, SView)):
        c = I.rope_of(v).concrete()
        return {"b": bytes(c).hex()} if c is not None else {"symbolic": True}
    if isinstance(v, SEnum):
        return norm_engine(I, v.value, depth + 1)
    if isinstance(v, SUUID):
        c = v.rope.concrete()
        return {"uuid": bytes(c).hex()} if c is not None else {"symbolic": True}
    if isinstance(v, SObj):
        names = v.cls.fields if getattr(v.cls, "fields", None) else list(v.fields)
        return {"obj": v.cls.name, "f": {k: norm_engine(I, v.fields.get(k), depth + 1) for k in names if k in v.fields}}
    if isinstance(v, (list, tuple)):
        return [norm_engine(I, x, depth + 1) for x in v]
    if isinstance(v, bool) or v is None or isinstance(v, (int, str)):
        return v
    import z3

    if isinstance(v, z3.ExprRef):
        from pyvc.smt import conc_int, simp

        s = simp(v)
        if z3.is_true(s):
            return True
        if z3.is_false(s):
            return False
        c = conc_int(s)
        return c if c is not None else {"symbolic": str(s)[:60]}
    return {"other": type(v).__name__}


_G = {}


def _init(repo):
    from pyvc.main import _load

    P, REG = _load(repo)
    REG.disabled = set(REG.contracts)  # no summaries: every repo function is executed by the executor
    _G.update(P=P, REG=REG)


def _one(case):
    from pyvc.interp import Interp
    from pyvc.path import PathCtx
    from pyvc.values import Coro, OutOfReach, PathEnd, PyRaise, SObj

    P, REG = _G["P"], _G["REG"]
    ctx = PathCtx([], axioms=())
    I = Interp(P, REG, ctx, top=None)
    fi = P.find_func(case["function"])
    if fi is None:
        return {"kind": "missing"}
    args = [to_engine(a) for a in case["args"]]
    m = P.method(P.find_class(fi.qualname.split(".")[0]), fi.qualname.split(".")[-1]) if "." in fi.qualname else None
    if m is not None and m[1] == "classmethod":
        from pyvc.values import ClassRef

        args = [ClassRef(P.find_class(fi.qualname.split(".")[0]))] + args
    try:
        r = I.call_repo(fi, args, {}, force_inline=True)
        if isinstance(r, Coro):
            r = r.value
        if case.get("then"):
            r = I.call_value(I.getattr(r, case["then"]), [], {})
        out = norm_engine(I, r)
        readers = [x for x in args if isinstance(x, SObj) and x.cls.name == "ASN1Reader"]
        if readers:
            out = [out, norm_engine(I, readers[0].fields["_view"])]  # the value and what the reader has left
        return {"kind": "return", "value": out}
    except PyRaise as e:
        return {"kind": "raise", "type": e.exc.type_name.split(":")[-1].split(".")[-1], "mro": [n.split(":")[-1].split(".")[-1] for n in e.exc.mro]}
    except OutOfReach as e:
        return {"kind": "out-of-reach", "why": str(e)[:200]}
    except PathEnd:
        return {"kind": "path-end"}
    except Exception as e:  # noqa
        return {"kind": "engine-error", "why": f"{type(e).__name__}: {e}"[:300]}


def same(native, eng):
    if native["kind"] != eng["kind"]:
        return False
    if native["kind"] == "raise":
        return native["type"] == eng["type"]
    if native["kind"] == "return":
        return native["value"] == eng["value"]
    return True


def cross_check(repo, jobs=16, show=12, quiet=False):
    """-> dict(cases, agree, disagree, skipped, per_function, examples, error)"""
    t0 = time.time()
    env = dict(os.environ, PYTHONPATH=os.path.join(repo, "src"), SELFTEST_TESTS=os.path.join(repo, "tests"))
    env.setdefault("VERIF_SEED", "1")
    try:
        p = subprocess.run(["/venv/bin/python", os.path.join(HERE, "selftest", "native_cases.py")], env=env, capture_output=True, text=True, timeout=900)
    except subprocess.TimeoutExpired:
        return {"error": "native corpus generation timed out"}
    if p.returncode != 0:
        return {"error": "native corpus generation failed: " + p.stderr[-400:]}
    cases = json.loads(p.stdout)
    with multiprocessing.get_context("fork").Pool(jobs, initializer=_init, initargs=(repo,)) as pool:
        outs = pool.map(_one, cases, chunksize=20)
    agree = disagree = skipped = 0
    per_fn = {}
    bad = []
    why = {}
    for c, o in zip(cases, outs):
        st = per_fn.setdefault(c["function"] + ("+" + c["then"] if c.get("then") else ""), [0, 0, 0])
        if o["kind"] in ("out-of-reach", "path-end", "missing") or c["native"]["kind"] == "budget":
            skipped += 1
            st[2] += 1
            if o["kind"] == "out-of-reach":
                why[o["why"]] = why.get(o["why"], 0) + 1
            continue
        if same(c["native"], o):
            agree += 1
            st[0] += 1
        else:
            disagree += 1
            st[1] += 1
            bad.append({"function": c["function"], "then": c.get("then"), "args": c["args"], "cpython": c["native"], "engine": o})
    return {"cases": len(cases), "agree": agree, "disagree": disagree, "skipped": skipped, "per_function": per_fn, "examples": bad[:show],
            "skipped_reasons": why, "wall_s": round(time.time() - t0, 1), "seed": env["VERIF_SEED"]}


def main(argv=None):
    ap = argparse.ArgumentParser()
    ap.add_argument("--repo", default=os.environ.get("PYVC_REPO", "/repo"))
    ap.add_argument("--jobs", type=int, default=16)
    ap.add_argument("--show", type=int, default=12)
    args = ap.parse_args(argv)
    res = cross_check(args.repo, args.jobs, args.show)
    if res.get("error"):
        print("CHECK-ERROR selftest:", res["error"])
        return 3
    for fn in sorted(res["per_function"]):
        a, d, s = res["per_function"][fn]
        print(f"  {fn}: agree={a} disagree={d} skipped={s}")
    for b in res["examples"]:
        print("DISAGREE", b["function"], b.get("then") or "", json.dumps(b["args"])[:200], "\n    cpython:", json.dumps(b["cpython"])[:300], "\n    engine: ", json.dumps(b["engine"])[:300])
    for w, n in sorted(res["skipped_reasons"].items(), key=lambda x: -x[1])[:8]:
        print(f"  skipped ({n}x): {w}")
    print(f"G3 executor cross-check: cases={res['cases']} agree={res['agree']} disagree={res['disagree']} skipped={res['skipped']} wall={res['wall_s']}s")
    if res["disagree"]:
        print("CHECK-ERROR selftest: the executor and CPython disagree")
        return 3
    return 0


if __name__ == "__main__":
    sys.exit(main())
