"""Bounded stand-in for the one clause of C05 that is not proved: "parser steps proportional to input size".

Runs under /venv/bin/python with PYTHONPATH=<tree>/src. Counts interpreter line events of DPAPINGBlob.unpack (the whole CMS/ASN.1
parser) on a family of inputs built to stress every loop of the parser, and checks  steps <= A*len(input) + B  for the fixed
constants below. BOUNDED: the family is finite (sizes up to MAX_SIZE); this is a measurement, never counted as proved. What IS
proved (contracts/c_untrusted.py) is that every loop terminates with a variant bounded by the remaining input.

Output: JSON {"bound": "...", "cases": n, "max_ratio": r, "worst": {...}, "violations": [{"hex_prefix":..., "len":..., "steps":...}]}"""
import json
import os
import random
import sys

A, B = 60, 4000  # steps <= 60 * len + 4000 (fixed before measuring the thorough family; the quick family peaks well below)
MAX_SIZE = int(os.environ.get("COST_MAX_SIZE", "200000"))
rnd = random.Random(int(os.environ.get("VERIF_SEED", "1")))


def steps_of(fn, data, budget):
    count = [0]

    class Budget(BaseException):
        pass

    def tracer(frame, event, arg):
        if event == "line":
            count[0] += 1
            if count[0] > budget:
                raise Budget()
        return tracer

    try:
        sys.settrace(tracer)
        try:
            fn(data)
        finally:
            sys.settrace(None)
    except Budget:
        return count[0], "budget"
    except BaseException as e:  # noqa
        return count[0], type(e).__name__
    return count[0], "return"


def der_len(n):
    if n < 128:
        return bytes([n])
    b = n.to_bytes((n.bit_length() + 7) // 8, "big")
    return bytes([0x80 | len(b)]) + b


def tlv(tag, content):
    return bytes(tag if isinstance(tag, (bytes, bytearray)) else [tag]) + der_len(len(content)) + content


def family(valid):
    from dpapi_ng import _asn1 as a

    sizes = [s for s in (0, 1, 10, 100, 1000, 10000, 50000, 200000, 1000000) if s <= MAX_SIZE]
    out = []
    # 1) the captured blob, truncated / extended / corrupted
    for v in valid[:3]:
        out.append(v)
        for k in (1, 2, 5, 17, len(v) // 2, len(v) - 1):
            out.append(v[:k])
        out.append(v + bytes(MAX_SIZE // 4))
        for _ in range(20):
            b = bytearray(v)
            b[rnd.randrange(len(b))] = rnd.randrange(256)
            out.append(bytes(b))
    oid_env = bytes(a._pack_asn1_object_identifier("1.2.840.113549.1.7.3"))
    for n in sizes:
        # 2) ContentInfo whose [0] content is n arbitrary bytes / n zero bytes
        for fill in (bytes(n), bytes(rnd.randrange(256) for _ in range(min(n, 20000))) * (n // min(max(n, 1), 20000) if n else 0)):
            out.append(tlv(0x30, oid_env + tlv(0xA0, fill)))
        # 3) EnvelopedData with a SET of n/40 KEKRecipientInfo-shaped elements (the while loop over recipients)
        ri = tlv(0xA2, tlv(0x02, b"\x04") + tlv(0x30, tlv(0x04, b"k" * 8)) + tlv(0x30, oid_env) + tlv(0x04, b"e" * 8))
        body = tlv(0x02, b"\x02") + tlv(0x31, ri * max(1, n // len(ri))) + tlv(0x30, oid_env + tlv(0x30, oid_env))
        out.append(tlv(0x30, oid_env + tlv(0xA0, tlv(0x30, body))))
        # 4) an INTEGER (version) with n content octets, positive and negative
        for first in (b"\x01", b"\xff"):
            body = tlv(0x02, first + bytes(n)) + tlv(0x31, b"")
            out.append(tlv(0x30, oid_env + tlv(0xA0, tlv(0x30, body))))
        # 5) an OID with n content octets: one huge arc, and n one-octet arcs
        for content in (b"\x2a" + b"\x81" * n + b"\x01", b"\x2a" + b"\x01" * n):
            out.append(tlv(0x30, tlv(0x06, content) + tlv(0xA0, b"")))
        # 6) a high tag number with n continuation octets; a long-form length with leading zero octets (max 126)
        out.append(b"\x3f" + b"\x81" * n + b"\x01" + b"\x00")
    out.append(b"\x30" + bytes([0x80 | 126]) + bytes(125) + b"\x05" + b"\x00" * 5)
    for _ in range(50):
        out.append(bytes(rnd.randrange(256) for _ in range(rnd.randrange(0, 300))))
    return out


def main():
    import base64
    import glob

    from dpapi_ng._blob import DPAPINGBlob

    root = os.environ["SELFTEST_TESTS"]
    valid = []
    for p in sorted(glob.glob(os.path.join(root, "data", "dpapi_ng_blob", "*")) + glob.glob(os.path.join(root, "data", "dpapi_ng_blob"))):
        if os.path.isfile(p):
            raw = open(p, "rb").read()
            try:
                valid.append(base64.b64decode(raw.strip(), validate=True))
            except Exception:
                valid.append(raw)
    worst = None
    violations = []
    n = 0
    for data in family(valid):
        n += 1
        bound = A * len(data) + B
        steps, how = steps_of(DPAPINGBlob.unpack, data, bound + 1)
        ratio = steps / (len(data) + 1)
        if worst is None or ratio > worst["steps_per_byte"] and len(data) > 1000:
            worst = {"len": len(data), "steps": steps, "outcome": how, "steps_per_byte": round(ratio, 2), "hex_prefix": data[:24].hex()}
        if steps > bound:
            violations.append({"len": len(data), "steps": steps, "outcome": how, "hex": data.hex() if len(data) <= 4096 else None, "hex_prefix": data[:64].hex()})
    json.dump({"bound": f"line events of DPAPINGBlob.unpack(data) <= {A}*len(data) + {B}", "cases": n, "max_input_len": MAX_SIZE, "worst": worst, "violations": violations[:5]}, sys.stdout)


if __name__ == "__main__":
    main()
